package sim

import (
	"crypto/ecdsa"
	"fmt"
	"strconv"
	"strings"

	"mhubsim/ext"
	"mhubsim/hub"

	mhub2types "github.com/MinterTeam/mhub2/module/x/mhub2/types"
	sdk "github.com/cosmos/cosmos-sdk/types"
)

// nextSeq hands out the account number and the next pipelined sequence of a signer.
func (w *World) nextSeq(signer *hub.Account) (num, seq uint64, ok bool) {
	num, cseq, ok := w.N().AccountInfo(signer.Addr)
	if !ok {
		return 0, 0, false
	}
	if w.pend == nil {
		w.pend = map[string][2]uint64{}
	}
	p := w.pend[signer.Addr.String()]
	if p[0] != cseq+1 {
		p = [2]uint64{cseq + 1, 0}
	}
	use := cseq + p[1]
	p[1]++
	w.pend[signer.Addr.String()] = p
	return num, use, true
}

// valAccount resolves an intent's validator index: 0..n-1 genesis validators, >=100 late validators.
func (w *World) valAccount(i int) *hub.Account {
	if i >= 100 {
		return w.Extra[[]string{"newval0", "newval1"}[(i-100)%2]]
	}
	return w.val(i).Oper
}

func delegateSig(val sdk.ValAddress, nonce uint64, key *ecdsa.PrivateKey) []byte {
	m := mhub2types.DelegateKeysSignMsg{ValidatorAddress: val.String(), Nonce: nonce}
	bz, _ := m.Marshal()
	return ext.SignDigest(ext.Keccak(bz), key)
}

// doSetKeys: MsgDelegateKeys through the real ante handler, with the variations of C17.
func (w *World) doSetKeys(in Intent) {
	oper := w.valAccount(in.V)
	valAddr := oper.ValAddr()
	chain := in.Chain
	// default identities
	label := fmt.Sprintf("k%d-%s", in.V, chain)
	orch := hub.NewAccount("orch-" + label)
	key := ext.DetEthKey(label)
	if in.V < 100 {
		v := w.val(in.V)
		if o, ok := v.Orch[chain]; ok {
			orch, key = o, v.ExtKey[chain]
		}
	}
	signKey := key
	signer := oper
	extAddr := eip55(ext.KeyAddr(key))
	num, seq, ok := w.nextSeq(signer)
	if !ok {
		return
	}
	nonce := seq
	meta := map[string]string{"chain": chain, "val": strconv.Itoa(in.V), "op": in.Op}
	switch in.Op {
	case "", "normal":
	case "fresh":
		l2 := fmt.Sprintf("%s-fresh%d", label, in.Pick)
		orch = hub.NewAccount("orch-" + l2)
		key = ext.DetEthKey(l2)
		signKey = key
		extAddr = eip55(ext.KeyAddr(key))
	case "steal_ext": // somebody else's external address, signed with our own key
		o := w.val(in.Pick)
		if _, ok := o.ExtKey[chain]; !ok {
			return
		}
		extAddr = eip55(o.ExtAddr(chain))
	case "steal_ext_key": // … or even with the right key (one operator, two validators): the victim's CURRENT address
		o := w.val(in.Pick)
		cur, ok := w.keyModelOf(chain).valExt[o.Oper.ValAddr().String()]
		k2 := w.extKeyByAddr[cur]
		if !ok || k2 == nil {
			k2, ok = o.ExtKey[chain]
			if !ok {
				return
			}
		}
		signKey = k2
		extAddr = eip55(ext.KeyAddr(k2))
	case "xchain": // the validator's key of ANOTHER chain is registered here too (allowed: the registry is per chain)
		if in.V >= 100 {
			return
		}
		v := w.val(in.V)
		other := Chains[in.Pick%len(Chains)]
		k2, ok := v.ExtKey[other]
		if !ok || other == chain {
			return
		}
		key, signKey = k2, k2
		extAddr = eip55(ext.KeyAddr(k2))
		orch = hub.NewAccount(fmt.Sprintf("orch-%s-x%s", label, other))
	case "rotate_orch", "rotate_orch_badsig": // keep the CURRENT external address, bind a new orchestrator
		cur, ok := w.keyModelOf(chain).valExt[valAddr.String()]
		k2 := w.extKeyByAddr[cur]
		if !ok || k2 == nil {
			return
		}
		key, signKey = k2, k2
		extAddr = eip55(ext.KeyAddr(k2))
		orch = hub.NewAccount(fmt.Sprintf("orch-%s-rot%d", label, in.Pick))
		if in.Op == "rotate_orch_badsig" {
			signKey = ext.DetEthKey(label + "-other")
		}
	case "back_to_first": // the validator's FIRST external key again (after it rotated away from it), with a new orchestrator
		if in.V >= 100 {
			return
		}
		v := w.val(in.V)
		k0, ok := v.ExtKey[chain]
		if !ok {
			return
		}
		key, signKey = k0, k0
		extAddr = eip55(ext.KeyAddr(k0))
		orch = hub.NewAccount(fmt.Sprintf("orch-%s-b%d", label, in.Pick))
	case "orch_other_val": // fresh key; the orchestrator is the operator account of ANOTHER validator
		l2 := fmt.Sprintf("%s-ov%d", label, in.Pick)
		key = ext.DetEthKey(l2)
		signKey = key
		extAddr = eip55(ext.KeyAddr(key))
		o := w.val(in.Pick)
		if o.Oper.Addr.Equals(oper.Addr) {
			return
		}
		orch = o.Oper
	case "share_orch", "self_orch": // fresh key; the orchestrator is the one this validator uses on ANOTHER chain / its own operator account
		if in.V >= 100 {
			return
		}
		l2 := fmt.Sprintf("%s-sh%d", label, in.Pick)
		key = ext.DetEthKey(l2)
		signKey = key
		extAddr = eip55(ext.KeyAddr(key))
		if in.Op == "self_orch" {
			orch = oper
		} else {
			other := Chains[in.Pick%len(Chains)]
			cur, ok := w.currentOrchOf(other, valAddr)
			if !ok || other == chain {
				return
			}
			orch = cur
		}
	case "poison_orch":
		// fresh key; the orchestrator is an existing, funded account that no validator has registered - and the
		// registration is rolled back (see then_fail): that account must stay a stranger
		l2 := fmt.Sprintf("%s-po%d", label, in.Pick)
		orch = w.Extra["foreign1"]
		key = ext.DetEthKey(l2)
		signKey = key
		extAddr = eip55(ext.KeyAddr(key))
		in.Mut = "then_fail"
	case "steal_orch", "steal_first_orch":
		o := w.val(in.Pick)
		if oo, ok := o.Orch[chain]; ok {
			orch = oo
		}
		// the victim's CURRENT orchestrator on this chain, whatever it registered last - or (odd picks) the one it
		// started with, which a rotation may have released in the meantime
		if cur, ok := w.currentOrchOf(chain, o.Oper.ValAddr()); ok && in.Pick%2 == 0 && in.Op != "steal_first_orch" {
			orch = cur
		}
		l2 := fmt.Sprintf("%s-so%d", label, in.Pick)
		key = ext.DetEthKey(l2)
		signKey = key
		extAddr = eip55(ext.KeyAddr(key))
	case "stale":
		if nonce > 0 {
			nonce--
		}
	case "future":
		nonce++
	case "wrong_key":
		signKey = ext.DetEthKey(label + "-other")
	case "unknown_val":
		signer = w.Extra["foreign0"]
		valAddr = signer.ValAddr()
		num, seq, ok = w.nextSeq(signer)
		if !ok {
			return
		}
		nonce = seq
	case "other_signer":
		signer = w.Extra["foreign1"]
		num, seq, ok = w.nextSeq(signer)
		if !ok {
			return
		}
	}
	sig := delegateSig(valAddr, nonce, signKey)
	if in.Op == "replay" {
		if old, ok := w.lastKeyMsg[label]; ok {
			sig = old.EthSignature
			orch2, _ := sdk.AccAddressFromBech32(old.OrchestratorAddress)
			_ = orch2
			extAddr = old.ExternalAddress
			msg := *old
			meta["ext"] = extAddr
			meta["orch"] = msg.OrchestratorAddress
			meta["signed_nonce"] = "replay"
			meta["seq"] = strconv.FormatUint(seq, 10)
			w.St.Fault("keys_replay")
			w.SubmitSeq("set_keys", signer, num, seq, in.Net, meta, &msg)
			return
		}
	}
	msg := &mhub2types.MsgDelegateKeys{ValidatorAddress: valAddr.String(), OrchestratorAddress: orch.Addr.String(), ExternalAddress: extAddr, EthSignature: sig, ChainId: chain}
	meta["ext"] = extAddr
	meta["orch"] = orch.Addr.String()
	// admissible spellings of the same identities: bech32 is valid in all-upper case, hex in any case
	switch in.Mut {
	case "orch_upper":
		msg.OrchestratorAddress = strings.ToUpper(msg.OrchestratorAddress)
	case "val_upper":
		msg.ValidatorAddress = strings.ToUpper(msg.ValidatorAddress)
	case "ext_lower":
		msg.ExternalAddress = strings.ToLower(msg.ExternalAddress)
	case "ext_upper":
		msg.ExternalAddress = "0x" + strings.ToUpper(msg.ExternalAddress[2:])
	}
	if in.Mut != "" {
		w.St.Fault("keys_spelling_" + in.Mut)
	}
	meta["seq"] = strconv.FormatUint(seq, 10)
	meta["signed_nonce"] = strconv.FormatUint(nonce, 10)
	meta["sig_by"] = eip55(ext.KeyAddr(signKey))
	meta["tx_signer_is_val"] = strconv.FormatBool(signer.Addr.Equals(sdk.AccAddress(valAddr)))
	if in.Op != "" && in.Op != "normal" && in.Op != "fresh" {
		w.St.Fault("keys_" + in.Op)
	}
	w.extKeyByAddr[ext.KeyAddr(signKey)] = signKey
	if w.lastKeyMsg == nil {
		w.lastKeyMsg = map[string]*mhub2types.MsgDelegateKeys{}
	}
	w.lastKeyMsg[label] = msg
	if in.Mut == "then_fail" {
		// the registration is followed, in the same transaction, by a message that fails: the transaction is atomic,
		// so nothing of the registration may remain anywhere (store or memory)
		meta["poison"] = "1"
		w.St.Fault("keys_registration_rolled_back")
		w.SubmitSeq("set_keys", signer, num, seq, in.Net, meta, msg, &mhub2types.MsgCancelSendToExternal{Id: 1 << 40, Sender: signer.Addr.String(), ChainId: chain})
		return
	}
	w.SubmitSeq("set_keys", signer, num, seq, in.Net, meta, msg)
}

// doConfirmFuzz: confirmations that are wrong in one specific way (C16).
func (w *World) doConfirmFuzz(in Intent) {
	v := w.val(in.V)
	chain := in.Chain
	signer := w.signerFor(v, chain, in.As)
	st := w.ReadState()
	key := v.ExtKey[chain]
	extHex := v.ExtHex(chain)
	msgChain := chain
	var conf mhub2types.ExternalTxConfirmation
	sigOf := func(d [32]byte) []byte { return ext.SignDigest(d, key) }
	gid := ext.B32Right([]byte(w.Cfg.GravityID))
	switch in.Op {
	case "ss":
		ss := st.SignerSets(chain)
		if len(ss) == 0 {
			return
		}
		s := ss[in.Pick%len(ss)]
		conf = &mhub2types.SignerSetTxConfirmation{SignerSetNonce: s.Nonce, ExternalSigner: extHex, Signature: sigOf(ext.MakeCheckpoint(membersOf(s), s.Nonce, gid))}
	case "batch":
		bs := st.Batches(chain)
		if len(bs) == 0 {
			return
		}
		b := bs[in.Pick%len(bs)]
		conf = &mhub2types.BatchTxConfirmation{ExternalTokenId: b.ExternalTokenId, BatchNonce: b.BatchNonce, ExternalSigner: extHex, Signature: sigOf(ext.BatchHash(batchCallOf(b), gid))}
	default:
		return
	}
	setSigner := func(s string) {
		switch c := conf.(type) {
		case *mhub2types.SignerSetTxConfirmation:
			c.ExternalSigner = s
		case *mhub2types.BatchTxConfirmation:
			c.ExternalSigner = s
		}
	}
	setSig := func(b []byte) {
		switch c := conf.(type) {
		case *mhub2types.SignerSetTxConfirmation:
			c.Signature = b
		case *mhub2types.BatchTxConfirmation:
			c.Signature = b
		}
	}
	switch in.Mut {
	case "unknown":
		switch c := conf.(type) {
		case *mhub2types.SignerSetTxConfirmation:
			c.SignerSetNonce += 1000
		case *mhub2types.BatchTxConfirmation:
			c.BatchNonce += 1000
		}
	case "wrong_token":
		if c, ok := conf.(*mhub2types.BatchTxConfirmation); ok {
			c.ExternalTokenId = c.ExternalTokenId + "0"
		}
	case "wrong_chain":
		for _, ch := range Chains {
			if ch != chain {
				msgChain = ch
				break
			}
		}
	case "other_signer":
		o := w.val(in.V + 1 + in.Pick%3)
		if o.Idx == v.Idx {
			return
		}
		setSigner(o.ExtHex(chain))
	case "garbage":
		g := make([]byte, 65)
		for i := range g {
			g[i] = byte(in.Pick*7 + i*13)
		}
		setSig(g)
	case "short_sig":
		setSig([]byte{1, 2, 3})
	case "foreign":
		signer = w.Extra["foreign0"]
	}
	if in.Mut != "" {
		w.St.Fault("confirm_" + in.Mut)
	}
	any, err := mhub2types.PackConfirmation(conf)
	if err != nil {
		return
	}
	w.Submit("confirm", signer, in.Net, map[string]string{"chain": msgChain, "val": strconv.Itoa(v.Idx), "mut": in.Mut},
		&mhub2types.MsgSubmitExternalTxConfirmation{Confirmation: any, Signer: signer.Addr.String(), ChainId: msgChain})
}

// currentOrchOf reads the hub's registry: the orchestrator account currently bound to a validator on a chain.
func (w *World) currentOrchOf(chain string, val sdk.ValAddress) (*hub.Account, bool) {
	valExt, _, extOrch := w.ReadState().DelegateIndexes(chain)
	e, ok := valExt[string(val)]
	if !ok {
		return nil, false
	}
	o, ok := extOrch[e]
	if !ok || len(o) != 20 {
		return nil, false
	}
	return &hub.Account{Addr: sdk.AccAddress([]byte(o))}, true
}
