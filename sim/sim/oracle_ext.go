package sim

import (
	"bytes"
	"crypto/sha256"
	"encoding/binary"
	"encoding/hex"
	"fmt"
	"math/big"
	"math/rand"
	"sort"
	"strconv"
	"strings"

	"mhubsim/ext"

	mhub2types "github.com/MinterTeam/mhub2/module/x/mhub2/types"
	sdk "github.com/cosmos/cosmos-sdk/types"
	gethcommon "github.com/ethereum/go-ethereum/common"
)

// ------------------------------------------------------------------------------------------------
// C07 — sign-bytes agree with the Ethereum contract.
type C07 struct {
	BaseOracle
	rng *rand.Rand
}

func (*C07) Property() string { return "C07" }

func (o *C07) Init(w *World) {
	// the oracle's own deterministic stream for directly generated shapes (never the run's PRNG)
	h := sha256.Sum256([]byte(fmt.Sprintf("C07/%s/%d/%v", w.Cfg.GravityID, w.Cfg.NVals, w.Cfg.Stakes)))
	o.rng = rand.New(rand.NewSource(int64(binary.BigEndian.Uint64(h[:8]) >> 1)))
	o.direct(w, 6)
}

func safeCheckpoint(f func() []byte) (out []byte, perr interface{}) {
	defer func() {
		if r := recover(); r != nil {
			perr = r
		}
	}()
	return f(), nil
}

func (o *C07) compare(w *World, what string, hubCp func() []byte, model [32]byte, detail string) bool {
	w.St.Check("C07:checkpoint-eq")
	cp, perr := safeCheckpoint(hubCp)
	if perr != nil {
		w.Fail("C07", "checkpoint-eq", what+":panic", fmt.Sprintf("GetCheckpoint of a %s panicked: %v (%s)", what, perr, detail))
		return false
	}
	if !bytes.Equal(cp, model[:]) {
		w.Fail("C07", "checkpoint-eq", what, fmt.Sprintf("%s: hub digest %x differs from keccak256(abi.encode(...)) as the contract computes it %x (%s)", what, cp, model, detail))
		return false
	}
	return true
}

func (o *C07) sigCheck(w *World, cp [32]byte) bool {
	key := ext.DetEthKey("c07-signer")
	other := ext.DetEthKey("c07-other")
	w.St.Check("C07:sig-recover")
	sig, err := mhub2types.NewEthereumSignature(cp[:], key)
	if err != nil {
		w.Fail("C07", "sig-recover", "sign", "NewEthereumSignature failed: "+err.Error())
		return false
	}
	s, ok := ext.SigFromBytes(sig)
	if !ok || !ext.VerifySig(ext.KeyAddr(key), cp, s) {
		w.Fail("C07", "sig-recover", "verify", fmt.Sprintf("a signature made by the hub's signer over %x does not verify in the contract's verifySig for the signer's address", cp))
		return false
	}
	w.St.Check("C07:sig-exclusive")
	if ext.VerifySig(ext.KeyAddr(other), cp, s) {
		w.Fail("C07", "sig-exclusive", "address", "signature verifies for a different address")
		return false
	}
	cp2 := cp
	cp2[31] ^= 1
	if ext.VerifySig(ext.KeyAddr(key), cp2, s) {
		w.Fail("C07", "sig-exclusive", "digest", "signature verifies for a different digest")
		return false
	}
	// and the hub-side validator agrees with the contract's scheme
	if err := mhub2types.ValidateEthereumSignature(cp[:], sig, gethAddr(ext.KeyAddr(key))); err != nil {
		w.Fail("C07", "sig-recover", "hub-validate", "ValidateEthereumSignature rejects a signature the contract accepts: "+err.Error())
		return false
	}
	if mhub2types.ValidateEthereumSignature(cp[:], sig, gethAddr(ext.KeyAddr(other))) == nil {
		w.Fail("C07", "sig-exclusive", "hub-validate", "ValidateEthereumSignature accepts the signature for another address")
		return false
	}
	return true
}

func (o *C07) scan(w *World) {
	t := w.T()
	gid := []byte(w.Cfg.GravityID)
	g := ext.B32Right(gid)
	for _, ch := range []string{"ethereum", "bsc"} {
		for n, s := range t.Cur.SSets[ch] {
			if _, old := t.Prev.SSets[ch][n]; old {
				continue
			}
			w.St.Probe("nontrivial")
			m := ext.MakeCheckpoint(membersOf(s), s.Nonce, g)
			ss := *s
			if !o.compare(w, "signer-set", func() []byte { return ss.GetCheckpoint(gid) }, m, fmt.Sprintf("%s nonce %d, %d members", ch, s.Nonce, len(s.Signers))) {
				return
			}
			if !o.sigCheck(w, m) {
				return
			}
		}
		for k, b := range t.Cur.Batches[ch] {
			if _, old := t.Prev.Batches[ch][k]; old {
				continue
			}
			w.St.Probe("nontrivial")
			m := ext.BatchHash(batchCallOf(b), g)
			bb := *b
			if !o.compare(w, "batch", func() []byte { return bb.GetCheckpoint(gid) }, m, fmt.Sprintf("%s batch %d, %d transfers", ch, b.BatchNonce, len(b.Transactions))) {
				return
			}
			if !o.sigCheck(w, m) {
				return
			}
		}
	}
}

func (o *C07) AfterBegin(w *World)           { o.scan(w) }
func (o *C07) AfterTx(w *World, r *TxResult) { o.scan(w) }
func (o *C07) AfterEnd(w *World)             { o.scan(w); o.direct(w, 2) }

func (o *C07) randInt(bits int) sdk.Int {
	switch o.rng.Intn(6) {
	case 0:
		return sdk.ZeroInt()
	case 1:
		return sdk.NewIntFromBigInt(new(big.Int).Sub(new(big.Int).Lsh(big.NewInt(1), uint(bits)), big.NewInt(1)))
	default:
		return sdk.NewIntFromBigInt(new(big.Int).Rand(o.rng, new(big.Int).Lsh(big.NewInt(1), uint(1+o.rng.Intn(bits)))))
	}
}

func (o *C07) randAddr() string {
	b := make([]byte, 20)
	o.rng.Read(b)
	s := "0x" + hex.EncodeToString(b)
	switch o.rng.Intn(6) {
	case 0, 1:
		s = strings.ToUpper(s[2:])
		s = "0x" + s
	case 2: // spellings that pass the hub's hex-address validation as well
		s = s[2:]
	case 3:
		s = "0X" + s[2:]
	}
	return s
}

func (o *C07) u63() uint64 {
	switch o.rng.Intn(5) {
	case 0:
		return 0
	case 1:
		return 1<<63 - 1
	case 2:
		return uint64(o.rng.Intn(1000))
	default:
		return o.rng.Uint64() >> 1
	}
}

// direct evaluates shapes that histories do not reach (documented in DESIGN C07): the function is pure,
// so this is plain seeded input generation; values the hub cannot produce (>= 2^63 counters) are excluded.
func (o *C07) direct(w *World, n int) {
	for i := 0; i < n && !w.Stopped(); i++ {
		gl := o.rng.Intn(33)
		gid := make([]byte, gl)
		o.rng.Read(gid)
		g := ext.B32Right(gid)
		switch o.rng.Intn(3) {
		case 0:
			s := mhub2types.SignerSetTx{Nonce: o.u63(), Height: 1}
			k := o.rng.Intn(9)
			for j := 0; j < k; j++ {
				p := uint64(o.rng.Int63n(1 << 32))
				if o.rng.Intn(3) == 0 { // boundary powers: a dust member rounds to 0, one dominant member holds everything
					p = []uint64{0, 0, 1, 1 << 31, 1<<32 - 1, 1<<32 - 1}[o.rng.Intn(6)]
				}
				s.Signers = append(s.Signers, &mhub2types.ExternalSigner{Power: p, ExternalAddress: o.randAddr()})
			}
			w.St.Probe("direct-signer-set")
			if !o.compare(w, "signer-set", func() []byte { return s.GetCheckpoint(gid) }, ext.MakeCheckpoint(membersOf(&s), s.Nonce, g), fmt.Sprintf("direct: %d members, nonce %d, gravity id of %d bytes", k, s.Nonce, gl)) {
				return
			}
		case 1:
			b := mhub2types.BatchTx{BatchNonce: o.u63(), Timeout: o.u63(), ExternalTokenId: o.randAddr()}
			k := []int{0, 1, 2, 3, 7, 100}[o.rng.Intn(6)]
			for j := 0; j < k; j++ {
				b.Transactions = append(b.Transactions, &mhub2types.SendToExternal{Id: uint64(j + 1), ExternalRecipient: o.randAddr(),
					Token: mhub2types.ExternalToken{Amount: o.randInt(256), ExternalTokenId: b.ExternalTokenId}, Fee: mhub2types.ExternalToken{Amount: o.randInt(256), ExternalTokenId: b.ExternalTokenId}})
			}
			w.St.Probe("direct-batch")
			if !o.compare(w, "batch", func() []byte { return b.GetCheckpoint(gid) }, ext.BatchHash(batchCallOf(&b), g), fmt.Sprintf("direct: %d transfers, nonce %d, timeout %d", k, b.BatchNonce, b.Timeout)) {
				return
			}
		default:
			c := mhub2types.ContractCallTx{InvalidationNonce: o.u63(), Timeout: o.u63(), Address: o.randAddr()}
			sc := make([]byte, o.rng.Intn(33))
			o.rng.Read(sc)
			c.InvalidationScope = sc
			pl := make([]byte, []int{0, 1, 31, 32, 33, 64, 2048}[o.rng.Intn(7)])
			o.rng.Read(pl)
			c.Payload = pl
			for j := o.rng.Intn(4); j > 0; j-- {
				c.Tokens = append(c.Tokens, mhub2types.ExternalToken{Amount: o.randInt(256), ExternalTokenId: o.randAddr()})
			}
			for j := o.rng.Intn(4); j > 0; j-- {
				c.Fees = append(c.Fees, mhub2types.ExternalToken{Amount: o.randInt(256), ExternalTokenId: o.randAddr()})
			}
			w.St.Probe("direct-contract-call")
			if !o.compare(w, "contract-call", func() []byte { return c.GetCheckpoint(gid) }, ext.LogicCallHash(logicCallOf(&c), g), fmt.Sprintf("direct: payload %d bytes, scope %d bytes, %d tokens, %d fees", len(pl), len(sc), len(c.Tokens), len(c.Fees))) {
				return
			}
		}
	}
}

// ------------------------------------------------------------------------------------------------
// C08 — what the hub emits is executable on the external chain.
type C08 struct {
	BaseOracle
	signed map[string]map[[20]byte]bool // chain|storeIndexHex -> external address that truly signed the right digest
}

func (*C08) Property() string { return "C08" }
func (o *C08) Init(w *World)  { o.signed = map[string]map[[20]byte]bool{} }

// digestOf computes what the external custodian checks signatures against for an outgoing tx.
func (w *World) digestOfConfirmation(s *Snap, chain string, c mhub2types.ExternalTxConfirmation) ([32]byte, *ext.MTx, bool) {
	g := ext.B32Right([]byte(w.Cfg.GravityID))
	switch x := c.(type) {
	case *mhub2types.SignerSetTxConfirmation:
		ss := s.SSets[chain][x.SignerSetNonce]
		if ss == nil {
			return [32]byte{}, nil, false
		}
		if chain == "minter" {
			if w.Minter == nil {
				return [32]byte{}, nil, false
			}
			tx := w.minterValsetTx(ss)
			return ext.MinterSignBytes(&tx), &tx, true
		}
		return ext.MakeCheckpoint(membersOf(ss), ss.Nonce, g), nil, true
	case *mhub2types.BatchTxConfirmation:
		b := s.Batches[chain][bkey(x.ExternalTokenId, x.BatchNonce)]
		if b == nil {
			return [32]byte{}, nil, false
		}
		if chain == "minter" {
			if w.Minter == nil {
				return [32]byte{}, nil, false
			}
			tx := w.minterBatchTx(b)
			return ext.MinterSignBytes(&tx), &tx, true
		}
		return ext.BatchHash(batchCallOf(b), g), nil, true
	}
	return [32]byte{}, nil, false
}

func (o *C08) AfterTx(w *World, r *TxResult) {
	o.seqCheck(w)
	if r.Tx.Kind != "confirm" || r.Code != 0 || w.Stopped() {
		return
	}
	t := w.T()
	for _, m := range r.Tx.Msgs {
		cm, ok := m.(*mhub2types.MsgSubmitExternalTxConfirmation)
		if !ok {
			continue
		}
		c := decodeConfirmation(cm.Confirmation)
		if c == nil {
			continue
		}
		d, _, ok := w.digestOfConfirmation(t.Prev, cm.ChainId, c)
		if !ok {
			continue
		}
		signer := parse20(c.GetSigner().Hex())
		valid := false
		if cm.ChainId == "minter" {
			valid = ext.MinterSigValid(d, c.GetSignature(), signer)
		} else if s, ok := ext.SigFromBytes(c.GetSignature()); ok {
			valid = ext.VerifySig(signer, d, s)
		}
		if !valid {
			continue
		}
		idx := cm.ChainId + "|" + hex.EncodeToString(c.GetStoreIndex(mhub2types.ChainID(cm.ChainId)))
		if o.signed[idx] == nil {
			o.signed[idx] = map[[20]byte]bool{}
		}
		o.signed[idx][signer] = true
	}
}

// PreExtCall computes, from the statement, whether the contract must accept this submission.
func (o *C08) PreExtCall(w *World, c *ExtCall, ss *mhub2types.SignerSetTx, b *mhub2types.BatchTx, cc *mhub2types.ContractCallTx, sigs []ext.Sig) {
	e := w.Eth[c.Chain]
	if e == nil {
		return
	}
	var idx []byte
	switch {
	case ss != nil:
		idx = ss.GetStoreIndex(mhub2types.ChainID(c.Chain))
	case b != nil:
		idx = b.GetStoreIndex(mhub2types.ChainID(c.Chain))
	default:
		return
	}
	who := o.signed[c.Chain+"|"+hex.EncodeToString(idx)]
	power := new(big.Int)
	// a relayer that submits everything the hub has must have been given every recorded confirmation of the
	// members whose address is still registered (a key rotated away after confirming is C16's business)
	bound := map[[20]byte]bool{}
	if c.Info["full"] == "1" {
		valExt, _, _ := w.ReadState().DelegateIndexes(c.Chain)
		for _, raw := range valExt {
			if len(raw) == 20 {
				var e20 [20]byte
				copy(e20[:], raw)
				bound[e20] = true
			}
		}
	}
	// signatures travel in the order of the signer set the relayer got from the hub; while hub and contract
	// are in step that is the contract's own set. If the hub has not yet observed the contract's latest set
	// the relayer cannot be served (the statement's "in step" premise does not hold): no opinion.
	if c.CurNonce != e.ValsetNonce {
		w.St.Probe("relay-while-hub-lags-behind-contract-valset")
		return
	}
	sigAt := map[[20]byte]bool{}
	for i, m := range c.Cur {
		if i < len(sigs) && sigs[i].V != 0 {
			sigAt[m.Addr] = true
		}
	}
	for _, m := range e.Valset {
		if who[m.Addr] && (sigAt[m.Addr] || bound[m.Addr]) {
			power.Add(power, new(big.Int).SetUint64(m.Power))
		}
	}
	ok := power.Cmp(e.PowerThreshold) > 0
	c.Info["confirmed_power"] = power.String()
	switch {
	case ss != nil:
		ok = ok && ss.Nonce > e.ValsetNonce
	case b != nil:
		tok := ext.ParseAddr(b.ExternalTokenId)
		total := new(big.Int)
		for _, tx := range b.Transactions {
			total.Add(total, tx.Token.Amount.BigInt())
		}
		ok = ok && e.LastBatchNonce[tok] < b.BatchNonce && e.Height < b.Timeout && e.Custody(tok).Cmp(total) >= 0
	}
	c.Expected = &ok
}

func (o *C08) PreMinterCall(w *World, c *ExtCall, tx *ext.MTx, sigs [][]byte) {
	m := w.Minter
	d := ext.MinterSignBytes(tx)
	var sum uint32
	seen := map[string]bool{}
	for _, s := range sigs {
		for i, member := range m.Addresses {
			a := ext.ParseAddr("0x" + member[2:])
			if !seen[member] && ext.MinterSigValid(d, s, a) {
				seen[member] = true
				sum += m.Weights[i]
			}
		}
	}
	ok := sum >= m.Threshold && tx.Nonce == m.Nonce+1
	if tx.Type == ext.MTypeMultisend {
		need := map[uint64]*big.Int{}
		for _, it := range tx.Items {
			if need[it.Coin] == nil {
				need[it.Coin] = new(big.Int)
			}
			need[it.Coin].Add(need[it.Coin], it.Value)
		}
		for coin, n := range need {
			ok = ok && m.Custody(coin).Cmp(n) >= 0
		}
		ok = ok && len(tx.Items) > 0
	} else {
		var tot uint32
		for _, wg := range tx.Weights {
			tot += wg
		}
		ok = ok && len(tx.Addresses) > 0 && tot >= tx.Threshold
	}
	c.Expected = &ok
	c.Info["confirmed_weight"] = strconv.FormatUint(uint64(sum), 10)
}

func (o *C08) OnExtCall(w *World, c *ExtCall) {
	if c.Expected == nil || c.Kind == "deposit" {
		return
	}
	if w.Tainted {
		// validators that reported false events hold a third or more of the bonded power: what the hub believes
		// about the external chain (and hands to relayers as its current signer set) is no longer owed to be true
		w.St.Probe("relay-judgement-skipped-byzantine-bound")
		return
	}
	w.St.Check("C08:accept-iff")
	w.St.Probe("nontrivial")
	got := c.Err == nil
	if got && !*c.Expected {
		w.Fail("C08", "accept-iff", c.Chain+":"+c.Kind+":accepted", fmt.Sprintf("%s accepted %s %s although the statement's conditions do not hold (confirmed power/weight %s%s)", c.Chain, c.Kind, c.Info["nonce"], c.Info["confirmed_power"], c.Info["confirmed_weight"]))
		return
	}
	if !got && *c.Expected {
		w.Fail("C08", "accept-iff", c.Chain+":"+c.Kind+":rejected", fmt.Sprintf("%s rejected %s %s (%v) although enough of its current signer set confirmed it in time and in order (confirmed power/weight %s%s)", c.Chain, c.Kind, c.Info["nonce"], c.Err, c.Info["confirmed_power"], c.Info["confirmed_weight"]))
		return
	}
	if got {
		w.St.Probe("accepted:" + c.Chain + ":" + c.Kind)
	}
}

// every outgoing Minter tx must be usable with the multisig's nonce sequence
func (o *C08) seqCheck(w *World) {
	if w.Minter == nil {
		return
	}
	t := w.T()
	for n, s := range t.Cur.SSets["minter"] {
		if _, old := t.Prev.SSets["minter"][n]; !old {
			w.St.Check("C08:minter-sequence")
			if s.Sequence <= w.Minter.Nonce {
				w.Fail("C08", "minter-sequence", "signer-set", fmt.Sprintf("new Minter signer set %d carries sequence %d but the multisig has already used nonce %d", n, s.Sequence, w.Minter.Nonce))
				return
			}
		}
	}
	for k, b := range t.Cur.Batches["minter"] {
		if _, old := t.Prev.Batches["minter"][k]; !old {
			w.St.Check("C08:minter-sequence")
			if b.Sequence <= w.Minter.Nonce {
				w.Fail("C08", "minter-sequence", "batch", fmt.Sprintf("new Minter batch %s carries sequence %d but the multisig has already used nonce %d", k, b.Sequence, w.Minter.Nonce))
				return
			}
			if len(b.Transactions) == 0 {
				w.Fail("C08", "minter-sequence", "empty-batch", fmt.Sprintf("Minter batch %s is empty: a multisend without items can never consume sequence %d, so the direction is stuck", k, b.Sequence))
				return
			}
		}
	}
}

// usableSets: a signer set the hub publishes for a contract must be able to pass the contract's threshold when all
// of its members sign — the contract installs any set its current signers confirm without looking at the new
// powers, and a set that can never reach the threshold leaves the bridge without anyone able to execute anything.
func (o *C08) usableSets(w *World) {
	if w.Tainted || w.Halted != "" {
		return
	}
	t := w.T()
	for _, ch := range []string{"ethereum", "bsc"} {
		e := w.Eth[ch]
		if e == nil {
			continue
		}
		var nonces []uint64
		for n := range t.Cur.SSets[ch] {
			nonces = append(nonces, n)
		}
		sort.Slice(nonces, func(i, j int) bool { return nonces[i] < nonces[j] })
		for _, n := range nonces {
			s := t.Cur.SSets[ch][n]
			if _, old := t.Prev.SSets[ch][n]; old || len(s.Signers) == 0 {
				continue
			}
			w.St.Check("C08:usable-set")
			sum := new(big.Int)
			for _, m := range s.Signers {
				sum.Add(sum, new(big.Int).SetUint64(m.Power))
			}
			if sum.Cmp(e.PowerThreshold) <= 0 {
				w.Fail("C08", "usable-set", ch, fmt.Sprintf("%s: signer set %d published by the hub has %d members with a combined power of %s; the contract requires more than %s, so once installed even unanimous confirmations execute nothing", ch, n, len(s.Signers), sum, e.PowerThreshold))
				return
			}
		}
	}
}

// pendingSetsKept: the hub may forget a published signer set only when the external chain can no longer execute
// it (the contract is at that nonce or beyond; the multisig has used its sequence number). A set withdrawn
// earlier takes its confirmations with it - and on Minter its sequence number, behind which every later
// outgoing transaction waits for ever.
func (o *C08) pendingSetsKept(w *World) {
	if w.Tainted || w.Halted != "" {
		return
	}
	t := w.T()
	for _, ch := range Chains {
		var nonces []uint64
		for n := range t.Prev.SSets[ch] {
			if _, still := t.Cur.SSets[ch][n]; !still {
				nonces = append(nonces, n)
			}
		}
		sort.Slice(nonces, func(i, j int) bool { return nonces[i] < nonces[j] })
		for _, n := range nonces {
			s := t.Prev.SSets[ch][n]
			w.St.Check("C08:in-step")
			w.St.Probe("signer-set-pruned")
			done := false
			if ch == "minter" {
				done = w.Minter == nil || w.Minter.Nonce >= s.Sequence
			} else if e := w.Eth[ch]; e != nil {
				done = e.ValsetNonce >= n
			} else {
				done = true
			}
			if !done {
				w.Fail("C08", "in-step", ch+":pending-set-withdrawn", fmt.Sprintf("%s: the hub dropped signer set %d (sequence %d) in BeginBlock of height %d although the external chain has not executed it or a later one", ch, n, s.Sequence, t.Cur.Height))
				return
			}
		}
	}
}

func (o *C08) AfterBegin(w *World) { o.seqCheck(w); o.usableSets(w); o.pendingSetsKept(w) }

// AfterEnd: an execution the external chain reports must find the batch the hub was waiting for — otherwise
// hub and contract have drifted apart on what is still owed.
func (o *C08) AfterEnd(w *World) {
	if w.Tainted {
		return
	}
	t := w.T()
	for _, a := range t.Applied {
		e, ok := a.Event.(*mhub2types.BatchExecutedEvent)
		if !ok {
			continue
		}
		truth, isTrue := w.TrueClaim(a.Chain, a.Nonce).(*mhub2types.BatchExecutedEvent)
		if !isTrue || truth.BatchNonce != e.BatchNonce || truth.ExternalCoinId != e.ExternalCoinId {
			continue
		}
		w.St.Check("C08:in-step")
		if _, known := t.PreEnd.Batches[a.Chain][bkey(e.ExternalCoinId, e.BatchNonce)]; !known {
			w.Fail("C08", "in-step", a.Chain+":executed-batch-unknown", fmt.Sprintf("%s: the external chain executed batch %d of token %s, but when the hub observed it the batch was no longer pending there (its transfers were released although the batch was still executable)", a.Chain, e.BatchNonce, e.ExternalCoinId))
			return
		}
	}
}

// Finish: after the last fault every validator polled, signed and relayed for several rounds (Gen.Drain):
// the hub must have caught up with the external chains.
func (o *C08) Finish(w *World) {
	if !w.Settled || w.Tainted {
		return
	}
	st := w.ReadState()
	// precondition: the validators taking part hold a quorum right now
	total := st.LastTotalPower()
	live := sdk.ZeroInt()
	for _, v := range w.Vals {
		if w.ByzVals[v.Oper.ValAddr().String()] {
			continue // a validator that has voted for a false claim cannot vote for the true one at that nonce
		}
		live = live.Add(sdk.NewInt(st.LastValidatorPower(v.Oper.ValAddr())))
	}
	for _, l := range []string{"newval0", "newval1"} {
		live = live.Add(sdk.NewInt(st.LastValidatorPower(w.Extra[l].ValAddr())))
	}
	if live.MulRaw(100).LT(total.MulRaw(67)) || total.IsZero() {
		w.St.Probe("liveness-precondition-not-met")
		return
	}
	for _, ch := range Chains {
		top := w.lastExtNonce(ch)
		if top == 0 {
			continue
		}
		// validators that ran ahead on this chain cannot vote for the skipped nonce
		liveCh := sdk.NewIntFromBigInt(live.BigInt())
		for _, v := range w.Vals {
			if w.SkippedAhead[ch+"/"+v.Oper.ValAddr().String()] && !w.ByzVals[v.Oper.ValAddr().String()] {
				liveCh = liveCh.Sub(sdk.NewInt(st.LastValidatorPower(v.Oper.ValAddr())))
			}
		}
		if liveCh.MulRaw(100).LT(total.MulRaw(67)) {
			w.St.Probe("liveness-precondition-not-met")
			continue
		}
		w.St.Check("C08:liveness")
		if top-st.LastObservedEventNonce(ch) > 60 {
			continue // backlog larger than the settle phase can relay (8 rounds x 10 events); not judged
		}
		if got := st.LastObservedEventNonce(ch); got != top {
			w.Fail("C08", "liveness", ch+":events", fmt.Sprintf("%s: %d blocks after the last fault, with every validator relaying, the hub has applied events up to %d while the chain emitted %d", ch, w.N().Height-w.FaultsStoppedAt, got, top))
			return
		}
		// in step: last observed signer set
		if ch != "minter" {
			if e := w.Eth[ch]; e != nil {
				w.St.Check("C08:in-step")
				ls := st.LastObservedSignerSet(ch)
				if ls == nil || ls.Nonce != e.ValsetNonce {
					w.Fail("C08", "in-step", ch+":valset-nonce", fmt.Sprintf("%s: hub's last observed signer set is %v, the contract is at nonce %d", ch, ls, e.ValsetNonce))
					return
				}
				if len(ls.Signers) != len(e.Valset) {
					w.Fail("C08", "in-step", ch+":valset-members", fmt.Sprintf("%s: hub's last observed signer set has %d members, the contract's %d", ch, len(ls.Signers), len(e.Valset)))
					return
				}
				byA := map[[20]byte]uint64{}
				for _, m := range e.Valset {
					byA[m.Addr] = m.Power
				}
				for _, s := range ls.Signers {
					if byA[parse20(s.ExternalAddress)] != s.Power {
						w.Fail("C08", "in-step", ch+":valset-members", fmt.Sprintf("%s: member %s has power %d on the hub and %d in the contract", ch, s.ExternalAddress, s.Power, byA[parse20(s.ExternalAddress)]))
						return
					}
				}
				// in step: batch nonces. The hub has applied every event of the chain; a batch it still offers for signing
				// and relaying must be one the contract can still take (its nonce above the token's last executed one)
				for _, b := range st.Batches(ch) {
					w.St.Check("C08:in-step")
					if last := e.LastBatchNonce[ext.ParseAddr(b.ExternalTokenId)]; last >= b.BatchNonce {
						w.Fail("C08", "in-step", ch+":dead-batch-offered", fmt.Sprintf("%s: the hub has applied all of the chain's events and still offers batch %d of token %s, while the contract has already executed batch %d of that token and will reject it for ever", ch, b.BatchNonce, b.ExternalTokenId, last))
						return
					}
				}
			}
		}
	}
}

func gethAddr(a [20]byte) gethcommon.Address { return gethcommon.BytesToAddress(a[:]) }
