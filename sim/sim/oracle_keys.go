package sim

import (
	"bytes"

	"encoding/hex"
	"fmt"
	codectypes "github.com/cosmos/cosmos-sdk/codec/types"
	authtypes "github.com/cosmos/cosmos-sdk/x/auth/types"
	"mhubsim/hub"
	"sort"
	"strconv"
	"strings"

	"mhubsim/ext"

	mhub2types "github.com/MinterTeam/mhub2/module/x/mhub2/types"
	sdk "github.com/cosmos/cosmos-sdk/types"
	stakingtypes "github.com/cosmos/cosmos-sdk/x/staking/types"
)

// keyModel is the three-map reference model of the delegate-key registry of one chain.
type keyModel struct {
	valExt  map[string][20]byte // validator (bech32 valoper) -> external address
	orchVal map[string]string   // orchestrator (bech32) -> validator
	extOrch map[[20]byte]string // external address -> orchestrator
}

func newKeyModel() *keyModel {
	return &keyModel{valExt: map[string][20]byte{}, orchVal: map[string]string{}, extOrch: map[[20]byte]string{}}
}

func (w *World) keyModelOf(chain string) *keyModel {
	if w.keyModels == nil {
		w.keyModels = map[string]*keyModel{}
		for ci, ch := range Chains {
			m := newKeyModel()
			for vi, v := range w.Vals {
				if w.Cfg.Keys[vi][ci] {
					val := v.Oper.ValAddr().String()
					m.valExt[val] = v.ExtAddr(ch)
					m.orchVal[v.Orch[ch].Addr.String()] = val
					m.extOrch[v.ExtAddr(ch)] = v.Orch[ch].Addr.String()
				}
			}
			w.keyModels[ch] = m
		}
	}
	m := w.keyModels[chain]
	if m == nil {
		m = newKeyModel()
		w.keyModels[chain] = m
	}
	return m
}

// ------------------------------------------------------------------------------------------------
// C17 — delegate-key registry is one-to-one and self-authorised.
type C17 struct {
	BaseOracle
	valExists bool
}

func (*C17) Property() string { return "C17" }

func (o *C17) BeforeTx(w *World, tx *PendingTx) {
	if tx.Kind != "set_keys" {
		return
	}
	m := tx.Msgs[0].(*mhub2types.MsgDelegateKeys)
	va, err := sdk.ValAddressFromBech32(m.ValidatorAddress)
	o.valExists = err == nil && w.ReadState().Validator(va) != nil
	// the account sequence the ante handler will see for the tx signer
	sg, _ := sdk.AccAddressFromBech32(tx.Signer)
	_, seq, _ := accountInfoLive(w, sg)
	tx.Meta["_live_seq"] = strconv.FormatUint(seq, 10)
}

// accountInfoLive reads an account's sequence from the live block state.
func accountInfoLive(w *World, addr sdk.AccAddress) (uint64, uint64, bool) {
	st := w.ReadState()
	bz := st.ctx.KVStore(st.n.App.GetKey("acc")).Get(append([]byte{0x01}, addr.Bytes()...))
	if bz == nil {
		return 0, 0, false
	}
	acc, err := decodeAccount(bz)
	if err != nil {
		return 0, 0, false
	}
	return acc.GetAccountNumber(), acc.GetSequence(), true
}

func (o *C17) AfterTx(w *World, r *TxResult) {
	t := w.T()
	switch r.Tx.Kind {
	case "set_keys":
		o.afterSetKeys(w, r)
	case "claim":
		// attribution: a vote cast by an orchestrator shows up under the validator that registered it
		if r.Code != 0 {
			return
		}
		chain := r.Tx.Meta["chain"]
		km := w.keyModelOf(chain)
		want, isOrch := km.orchVal[r.Tx.Signer]
		if !isOrch {
			// an accepted claim is somebody's vote: its sender must be a validator's own account or an orchestrator
			// that a validator registered (a registration that was rolled back with its transaction registered nothing)
			w.St.Check("C17:attribution")
			if _, ok := w.valOfSigner(chain, r.Tx.Signer); !ok {
				w.Fail("C17", "attribution", "stranger", fmt.Sprintf("%s: a claim sent by %s, which no validator registered as its orchestrator, was accepted as a vote", chain, r.Tx.Signer))
			}
			return
		}
		for _, n := range parseNonces(r.Tx.Meta["nonces"]) {
			w.St.Check("C17:attribution")
			prevVotes := map[string]int{}
			for _, rec := range t.Prev.Votes[chain] {
				if rec.Nonce == n {
					for _, v := range rec.Rec.Votes {
						prevVotes[hex.EncodeToString(rec.Key)+"/"+v]++
					}
				}
			}
			var added []string
			for _, rec := range t.Cur.Votes[chain] {
				if rec.Nonce == n {
					cnt := map[string]int{}
					for _, v := range rec.Rec.Votes {
						cnt[v]++
					}
					for v, c := range cnt {
						if c > prevVotes[hex.EncodeToString(rec.Key)+"/"+v] {
							added = append(added, v)
						}
					}
				}
			}
			sort.Strings(added)
			if len(added) != 1 || added[0] != want {
				w.Fail("C17", "attribution", "vote", fmt.Sprintf("%s nonce %d: a claim sent by orchestrator %s (registered by %s) was recorded as a vote of %v", chain, n, r.Tx.Signer, want, added))
				return
			}
		}
	}
}

func (o *C17) afterSetKeys(w *World, r *TxResult) {
	m := r.Tx.Msgs[0].(*mhub2types.MsgDelegateKeys)
	chain := m.ChainId
	km := w.keyModelOf(chain)
	if r.Tx.Meta["poison"] == "1" {
		// the transaction carries a second message that always fails: it is rolled back as a whole, the model does not
		// move (the store comparison below still runs against the unchanged model)
		w.St.Probe("registration-rolled-back")
		return
	}
	extA := parse20(m.ExternalAddress)
	// identities, not spellings: bech32 is admissible in all-upper case too, and names the same account
	orchID, valID := m.OrchestratorAddress, m.ValidatorAddress
	if a, err := sdk.AccAddressFromBech32(m.OrchestratorAddress); err == nil {
		orchID = a.String()
	}
	if a, err := sdk.ValAddressFromBech32(m.ValidatorAddress); err == nil {
		valID = a.String()
	}
	w.St.Check("C17:accept-model")
	w.St.Probe("nontrivial")
	// --- the statement's acceptance rule
	reason := ""
	switch {
	case r.Tx.Meta["tx_signer_is_val"] == "false":
		reason = "the transaction was not signed by the validator's own account"
	case r.Tx.Meta["_live_seq"] != r.Tx.Meta["seq"]:
		reason = "stale transaction sequence"
	case !o.valExists:
		reason = "unknown validator"
	}
	if reason == "" {
		for v, e := range km.valExt {
			if e == extA && reason == "" {
				reason = "external address already bound to " + v
			}
		}
		for e, oaddr := range km.extOrch {
			_ = e
			if oaddr == orchID && reason == "" {
				reason = "orchestrator already bound"
			}
		}
	}
	if reason == "" {
		// signature of the external key over (validator, sequence number of the registering tx)
		seq, _ := strconv.ParseUint(r.Tx.Meta["seq"], 10, 64)
		sm := mhub2types.DelegateKeysSignMsg{ValidatorAddress: valID, Nonce: seq}
		bz, _ := sm.Marshal()
		sig, ok := ext.SigFromBytes(m.EthSignature)
		if !ok || !ext.VerifySig(extA, ext.Keccak(bz), sig) {
			reason = "no valid signature of the external key over (validator, sequence)"
		}
	}
	should := reason == ""
	got := r.Code == 0
	if got && !should {
		w.Fail("C17", "accept-model", "accepted:"+r.Tx.Meta["op"], fmt.Sprintf("%s: registration of (%s, %s) for %s was accepted although: %s", chain, m.ExternalAddress, m.OrchestratorAddress, m.ValidatorAddress, reason))
		return
	}
	if !got && should {
		w.Fail("C17", "accept-model", "rejected:"+r.Tx.Meta["op"], fmt.Sprintf("%s: a well-formed registration for %s was rejected: %s", chain, m.ValidatorAddress, r.Log))
		return
	}
	if got {
		km.orchVal[orchID] = valID
		km.valExt[valID] = extA
		km.extOrch[extA] = orchID
		w.St.Probe("registration-accepted")
		if _, re := r.Tx.Meta["op"]; re && r.Tx.Meta["op"] == "fresh" {
			w.St.Probe("re-registration")
		}
	}
	// --- the store must equal the model, and the model's invariants must hold on the store
	st := w.ReadState()
	valExt, orchVal, extOrch := st.DelegateIndexes(chain)
	w.St.Check("C17:index-consistent")
	seen := map[string]string{}
	for vb, eb := range valExt {
		val := sdk.ValAddress([]byte(vb)).String()
		var e [20]byte
		copy(e[20-len(eb):], eb)
		if other, dup := seen[eb]; dup {
			w.Fail("C17", "one-to-one", "external-address", fmt.Sprintf("%s: external address %x is the key of both %s and %s", chain, eb, other, val))
			return
		}
		seen[eb] = val
		if me, ok := km.valExt[val]; !ok || me != e {
			w.Fail("C17", "index-consistent", "val-ext", fmt.Sprintf("%s: store binds %s to %x, the reference model says %x", chain, val, eb, me))
			return
		}
		ob, ok := extOrch[eb]
		if !ok {
			w.Fail("C17", "index-consistent", "ext-orch", fmt.Sprintf("%s: current key %x of %s has no orchestrator entry", chain, eb, val))
			return
		}
		if vb2, ok := orchVal[ob]; !ok || vb2 != vb {
			w.Fail("C17", "index-consistent", "orch-val", fmt.Sprintf("%s: key %x of %s points to orchestrator %s, which resolves to %s", chain, eb, val, sdk.AccAddress([]byte(ob)), sdk.ValAddress([]byte(vb2))))
			return
		}
	}
	if len(valExt) != len(km.valExt) {
		w.Fail("C17", "index-consistent", "val-ext-count", fmt.Sprintf("%s: store has %d validator keys, model %d", chain, len(valExt), len(km.valExt)))
		return
	}
	for ob, vb := range orchVal {
		o1 := sdk.AccAddress([]byte(ob)).String()
		if km.orchVal[o1] != sdk.ValAddress([]byte(vb)).String() {
			w.Fail("C17", "index-consistent", "orch-val-model", fmt.Sprintf("%s: orchestrator %s resolves to %s in the store, %s in the model", chain, o1, sdk.ValAddress([]byte(vb)), km.orchVal[o1]))
			return
		}
	}
	if len(orchVal) != len(km.orchVal) {
		w.Fail("C17", "index-consistent", "orch-count", fmt.Sprintf("%s: store has %d orchestrator entries, model %d", chain, len(orchVal), len(km.orchVal)))
		return
	}
}

// ------------------------------------------------------------------------------------------------
// C16 — confirmations are attributable, unique and correctly queryable.
type C16 struct {
	BaseOracle
	sigs   map[string]map[string][]byte // chain|storeIndexHex -> validator -> signature
	bonded map[string]bool
}

func (*C16) Property() string { return "C16" }
func (o *C16) Init(w *World)  { o.sigs = map[string]map[string][]byte{} }

func (o *C16) BeforeTx(w *World, tx *PendingTx) {
	if tx.Kind != "confirm" {
		return
	}
	st := w.ReadState()
	o.bonded = map[string]bool{}
	for _, v := range st.AllValidators() {
		if v.Status == stakingtypes.Bonded {
			o.bonded[v.OperatorAddress] = true
		}
	}
}

func storeIndexOf(chain string, c mhub2types.ExternalTxConfirmation) []byte {
	return c.GetStoreIndex(mhub2types.ChainID(chain))
}

func decodeConfirmation(any *mhub2AnyT) mhub2types.ExternalTxConfirmation {
	switch any.TypeUrl {
	case "/mhub2.v1.SignerSetTxConfirmation":
		c := &mhub2types.SignerSetTxConfirmation{}
		if c.Unmarshal(any.Value) == nil {
			return c
		}
	case "/mhub2.v1.BatchTxConfirmation":
		c := &mhub2types.BatchTxConfirmation{}
		if c.Unmarshal(any.Value) == nil {
			return c
		}
	case "/mhub2.v1.ContractCallTxConfirmation":
		c := &mhub2types.ContractCallTxConfirmation{}
		if c.Unmarshal(any.Value) == nil {
			return c
		}
	}
	return nil
}

func txExists(s *Snap, chain string, c mhub2types.ExternalTxConfirmation) bool {
	switch x := c.(type) {
	case *mhub2types.SignerSetTxConfirmation:
		_, ok := s.SSets[chain][x.SignerSetNonce]
		return ok
	case *mhub2types.BatchTxConfirmation:
		_, ok := s.Batches[chain][bkey(x.ExternalTokenId, x.BatchNonce)]
		return ok
	case *mhub2types.ContractCallTxConfirmation:
		for _, cc := range s.Calls[chain] {
			if cc.InvalidationNonce == x.InvalidationNonce && bytes.Equal(cc.InvalidationScope, x.InvalidationScope) {
				return true
			}
		}
	}
	return false
}

func (o *C16) AfterTx(w *World, r *TxResult) {
	if r.Tx.Kind != "confirm" || anteRejected(r) {
		return
	}
	t := w.T()
	chain := r.Tx.Meta["chain"]
	km := w.keyModelOf(chain)
	// who speaks
	val, known := "", false
	if v, ok := km.orchVal[r.Tx.Signer]; ok {
		val, known = v, true
	} else if acc, err := sdk.AccAddressFromBech32(r.Tx.Signer); err == nil {
		va := sdk.ValAddress(acc).String()
		if w.ReadState().Validator(sdk.ValAddress(acc)) != nil {
			val, known = va, true
		}
	}
	// replay the tx's messages against the model; a tx is atomic
	staged := map[string]map[string][]byte{}
	reason := ""
	for _, m := range r.Tx.Msgs {
		cm, ok := m.(*mhub2types.MsgSubmitExternalTxConfirmation)
		if !ok {
			continue
		}
		c := decodeConfirmation(cm.Confirmation)
		if c == nil {
			return
		}
		w.St.Check("C16:accept-model")
		isChain := false
		for _, ch := range append(append([]string{}, Chains...), "hub") {
			isChain = isChain || ch == cm.ChainId
		}
		idx := cm.ChainId + "|" + hex.EncodeToString(storeIndexOf(cm.ChainId, c))
		switch {
		case !isChain:
			reason = "unknown chain"
		case !known || !o.bonded[val]:
			reason = "sender does not speak for a bonded validator"
		case !txExists(t.Prev, cm.ChainId, c):
			reason = "no such outgoing transaction on that chain"
		case km.valExt[val] != parse20(c.GetSigner().Hex()) || km.valExt[val] == [20]byte{}:
			reason = "claimed signer is not the validator's registered external address"
		case o.sigs[idx][val] != nil || staged[idx][val] != nil:
			reason = "this validator already confirmed this transaction"
		}
		if reason != "" {
			break
		}
		if staged[idx] == nil {
			staged[idx] = map[string][]byte{}
		}
		staged[idx][val] = c.GetSignature()
	}
	should := reason == ""
	got := r.Code == 0
	if r.Tx.Meta["mut"] != "" {
		w.St.Probe("fuzzed-confirmation:" + r.Tx.Meta["mut"])
	}
	if got && !should {
		w.Fail("C16", "accept-model", "accepted:"+r.Tx.Meta["mut"], fmt.Sprintf("%s: a confirmation from %s was recorded although: %s", chain, r.Tx.Signer, reason))
		return
	}
	if !got && should {
		w.Fail("C16", "accept-model", "rejected", fmt.Sprintf("%s: a proper confirmation from %s was rejected: %s", chain, r.Tx.Signer, r.Log))
		return
	}
	if got {
		w.St.Probe("nontrivial")
		for idx, m := range staged {
			if o.sigs[idx] == nil {
				o.sigs[idx] = map[string][]byte{}
			}
			for v, s := range m {
				o.sigs[idx][v] = s
			}
		}
	}
}

func (o *C16) AfterCommit(w *World) {
	t := w.T()
	for _, ch := range Chains {
		km := w.keyModelOf(ch)
		type pend struct {
			idx  []byte
			kind string
			ss   *mhub2types.SignerSetTx
			b    *mhub2types.BatchTx
		}
		var ps []pend
		for _, s := range t.Cur.SSets[ch] {
			ps = append(ps, pend{idx: s.GetStoreIndex(mhub2types.ChainID(ch)), kind: "ss", ss: s})
		}
		for _, b := range t.Cur.Batches[ch] {
			ps = append(ps, pend{idx: b.GetStoreIndex(mhub2types.ChainID(ch)), kind: "batch", b: b})
		}
		sort.Slice(ps, func(i, j int) bool { return bytes.Compare(ps[i].idx, ps[j].idx) < 0 })
		if len(ps) > 12 {
			ps = ps[:12]
		}
		for _, p := range ps {
			want := map[string]string{} // external address (lower hex) -> signature hex
			for v, s := range o.sigs[ch+"|"+hex.EncodeToString(p.idx)] {
				e := km.valExt[v]
				want[hex.EncodeToString(e[:])] = hex.EncodeToString(s)
			}
			got := map[string]string{}
			n := 0
			if p.kind == "ss" {
				for _, c := range w.querySignerSetConfs(ch, p.ss.Nonce) {
					a := parse20(c.ExternalSigner)
					got[hex.EncodeToString(a[:])] = hex.EncodeToString(c.Signature)
					n++
				}
			} else {
				for _, c := range w.queryBatchConfs(ch, p.b.ExternalTokenId, p.b.BatchNonce) {
					a := parse20(c.ExternalSigner)
					got[hex.EncodeToString(a[:])] = hex.EncodeToString(c.Signature)
					n++
				}
			}
			w.St.Check("C16:query-equal")
			if n != len(got) || len(got) != len(want) {
				w.Fail("C16", "query-equal", p.kind+":count", fmt.Sprintf("%s %s %x: the confirmations query returns %d entries (%d distinct signers); %d validators confirmed", ch, p.kind, p.idx, n, len(got), len(want)))
				return
			}
			for a, s := range want {
				if got[a] != s {
					w.Fail("C16", "query-equal", p.kind+":content", fmt.Sprintf("%s %s %x: confirmation of external address %s is missing or differs in the query answer", ch, p.kind, p.idx, a))
					return
				}
			}
		}
		// Unsigned* for each validator = pending − confirmed by it
		for _, v := range w.Vals {
			signer := w.signerFor(v, ch, "")
			ss, bs, _, ok := w.queryUnsigned(ch, signer.Addr)
			if !ok {
				continue
			}
			val := v.Oper.ValAddr().String()
			w.St.Check("C16:unsigned-equal")
			wantSS, wantB := map[uint64]bool{}, map[string]bool{}
			for n, s := range t.Cur.SSets[ch] {
				if o.sigs[ch+"|"+hex.EncodeToString(s.GetStoreIndex(mhub2types.ChainID(ch)))][val] == nil {
					wantSS[n] = true
				}
			}
			for k, b := range t.Cur.Batches[ch] {
				if o.sigs[ch+"|"+hex.EncodeToString(b.GetStoreIndex(mhub2types.ChainID(ch)))][val] == nil {
					wantB[k] = true
				}
			}
			gotSS, gotB := map[uint64]bool{}, map[string]bool{}
			for _, s := range ss {
				gotSS[s.Nonce] = true
			}
			for _, b := range bs {
				gotB[bkey(b.ExternalTokenId, b.BatchNonce)] = true
			}
			if len(gotSS) != len(ss) || len(gotB) != len(bs) || !sameSetU(gotSS, wantSS) || !sameSetS(gotB, wantB) {
				w.Fail("C16", "unsigned-equal", ch, fmt.Sprintf("%s: validator %s is told that signer sets %v and batches %v await its confirmation; pending and unconfirmed by it are %v and %v", ch, val, keysU(gotSS), sortedKeys(gotB), keysU(wantSS), sortedKeys(wantB)))
				return
			}
		}
	}
}

func sameSetU(a, b map[uint64]bool) bool {
	if len(a) != len(b) {
		return false
	}
	for k := range a {
		if !b[k] {
			return false
		}
	}
	return true
}
func sameSetS(a, b map[string]bool) bool {
	if len(a) != len(b) {
		return false
	}
	for k := range a {
		if !b[k] {
			return false
		}
	}
	return true
}
func keysU(m map[uint64]bool) []uint64 {
	var out []uint64
	for k := range m {
		out = append(out, k)
	}
	sort.Slice(out, func(i, j int) bool { return out[i] < out[j] })
	return out
}

var _ = strings.ToLower

type mhub2AnyT = codectypes.Any

func decodeAccount(bz []byte) (authtypes.AccountI, error) { return hub.DecodeAccount(bz) }
