package sim

import (
	"fmt"
	paramproposal "github.com/cosmos/cosmos-sdk/x/params/types/proposal"
	"math/big"
	"strconv"
	"strings"

	govtypes "github.com/cosmos/cosmos-sdk/x/gov/types"
	"mhubsim/hub"

	mhub2types "github.com/MinterTeam/mhub2/module/x/mhub2/types"
	sdk "github.com/cosmos/cosmos-sdk/types"
)

func sdkIntOf(s string) sdk.Int {
	if s == "nil" {
		return sdk.Int{}
	}
	b := bigOf(s)
	if b.BitLen() > 256 { // sdk.Int cannot carry more (and protobuf decoding rejects it)
		return sdk.NewIntFromBigInt(new(big.Int).Sub(new(big.Int).Lsh(big.NewInt(1), 256), big.NewInt(1)))
	}
	return sdk.NewIntFromBigInt(b)
}

// doAdvEvent: a FULL quorum (every validator) reports the same arbitrary event that merely passes
// stateless validation. Used by the adversarial C05 profile only (it desynchronises the hub from the
// external models on purpose).
func (w *World) doAdvEvent(in Intent) {
	st := w.ReadState()
	nonce := st.LastObservedEventNonce(in.Chain) + 1 + uint64(in.Skip)
	coin := in.Denom // external id verbatim
	if t := w.Cfg.Token(in.Chain, in.Denom); t != nil {
		coin = t.ExtID
	}
	sender := "0x00000000000000000000000000000000000000a1"
	recv := in.Dest
	if recv == "" {
		recv = eip55(w.user(in.U).Eth())
	}
	var ev mhub2types.ExternalEvent
	h := uint64(1000 + in.N)
	switch in.Op {
	case "ttc":
		ev = &mhub2types.TransferToChainEvent{EventNonce: nonce, ExternalCoinId: coin, Amount: sdkIntOf(in.Amt), Fee: sdkIntOf(in.Fee), Sender: sender,
			ReceiverChainId: in.Chain2, ExternalReceiver: recv, ExternalHeight: h, TxHash: "0xadv" + strconv.FormatUint(nonce, 10)}
	case "sth":
		ev = &mhub2types.SendToHubEvent{EventNonce: nonce, ExternalCoinId: coin, Amount: sdkIntOf(in.Amt), Sender: sender,
			CosmosReceiver: w.user(in.U).Acc.Addr.String(), ExternalHeight: h, TxHash: "0xadv" + strconv.FormatUint(nonce, 10)}
	case "batch":
		bn := uint64(in.Pick)
		if bs := st.Batches(in.Chain); len(bs) > 0 && in.Mut != "unknown" {
			b := bs[in.Pick%len(bs)]
			bn = b.BatchNonce
			coin = b.ExternalTokenId
		}
		ev = &mhub2types.BatchExecutedEvent{ExternalCoinId: coin, EventNonce: nonce, ExternalHeight: h, BatchNonce: bn, TxHash: "0xadv" + strconv.FormatUint(nonce, 10),
			FeePaid: sdkIntOf(in.Gas), FeePayer: in.Mut}
		if in.Mut == "unknown" || in.Mut == "" {
			ev.(*mhub2types.BatchExecutedEvent).FeePayer = sender
		}
	case "valset":
		var ms []*mhub2types.ExternalSigner
		for i := 0; i < in.Pick%4; i++ {
			ms = append(ms, &mhub2types.ExternalSigner{Power: uint64(1 + i), ExternalAddress: eip55(w.val(i).ExtAddr(in.Chain))})
		}
		if ms == nil {
			ms = []*mhub2types.ExternalSigner{}
		}
		ev = &mhub2types.SignerSetTxExecutedEvent{EventNonce: nonce, SignerSetTxNonce: uint64(in.N), ExternalHeight: h, Members: ms, TxHash: "0xadv"}
	case "call":
		ev = &mhub2types.ContractCallExecutedEvent{EventNonce: nonce, InvalidationScope: []byte(in.Mut), InvalidationNonce: uint64(in.N), ExternalHeight: h, TxHash: "0xadv"}
	default:
		return
	}
	if err := ev.Validate(mhub2types.ChainID(in.Chain)); err != nil {
		w.St.Inc("adv:inadmissible")
		return
	}
	any, err := mhub2types.PackEvent(ev)
	if err != nil {
		return
	}
	w.St.Fault("adversarial_quorum_event")
	w.St.Inc("adv:" + in.Op)
	for _, v := range w.Vals {
		signer := w.signerFor(v, in.Chain, "")
		w.Submit("adv_claim", signer, "", map[string]string{"chain": in.Chain, "val": strconv.Itoa(v.Idx), "nonces": strconv.FormatUint(nonce, 10)},
			&mhub2types.MsgSubmitExternalEvent{Event: any, Signer: signer.Addr.String(), ChainId: in.Chain})
	}
}

// doGov: governance. op "cold": ColdStorageTransferProposal (chain, denom, amt); op "commission": TokenInfosChangeProposal
// that changes one token's commission; op "vote": every validator votes yes on everything in its voting period.
func (w *World) doGov(in Intent) {
	proposer := w.val(in.V).Oper
	deposit := sdk.NewCoins(sdk.NewInt64Coin(hub.BondDenom, 10_000_000))
	switch in.Op {
	case "cold":
		coins := []sdk.Coin{sdk.NewCoin(in.Denom, sdkIntOf(in.Amt))}
		seenDenom := map[string]bool{in.Denom: true}
		for _, x := range in.Vals { // further coins "denom:amount" (a denom need not be bridged to that chain)
			if i := strings.Index(x, ":"); i > 0 && !seenDenom[x[:i]] && sdk.ValidateDenom(x[:i]) == nil {
				seenDenom[x[:i]] = true
				coins = append(coins, sdk.NewCoin(x[:i], sdkIntOf(x[i+1:])))
			}
		}
		for _, c := range coins {
			if c.Amount.IsNil() || !c.Amount.IsPositive() {
				return
			}
		}
		if len(coins) > 1 {
			w.St.Probe("cold-storage-several-coins")
		}
		c := mhub2types.NewColdStorageTransferProposal(mhub2types.ChainID(in.Chain), sdk.NewCoins(coins...))
		msg, err := govtypes.NewMsgSubmitProposal(c, deposit, proposer.Addr)
		if err != nil {
			return
		}
		w.St.Fault("gov_cold_storage_proposal")
		w.Submit("gov_submit", proposer, in.Net, map[string]string{"op": in.Op}, msg)
	case "param":
		// governance changes the transfer timeout (a parameter that block processing reads every block)
		pc := paramproposal.NewParameterChangeProposal("timeout", "change the outgoing transfer timeout", []paramproposal.ParamChange{
			paramproposal.NewParamChange("mhub2", "OutgoingTxTimeout", fmt.Sprintf("%q", in.Amt))})
		msg, err := govtypes.NewMsgSubmitProposal(pc, deposit, proposer.Addr)
		if err != nil {
			return
		}
		w.St.Fault("gov_param_change")
		w.Submit("gov_submit", proposer, in.Net, map[string]string{"op": in.Op}, msg)
	case "param_chains":
		// governance shrinks (or empties: the bridge is paused) the list of chains the bridge serves
		pc := paramproposal.NewParameterChangeProposal("chains", "change the chains the bridge serves", []paramproposal.ParamChange{
			paramproposal.NewParamChange("mhub2", "Chains", in.Amt)})
		msg, err := govtypes.NewMsgSubmitProposal(pc, deposit, proposer.Addr)
		if err != nil {
			return
		}
		w.St.Fault("gov_param_change")
		w.Submit("gov_submit", proposer, in.Net, map[string]string{"op": in.Op}, msg)
	case "delist":
		// governance removes one token from the list while transfers of it may be pending
		infos := w.ReadState().TokenInfos()
		if len(infos) < 2 {
			return
		}
		var out []*mhub2types.TokenInfo
		for i, ti := range infos {
			if i != in.Pick%len(infos) {
				c := *ti
				out = append(out, &c)
			}
		}
		msg, err := govtypes.NewMsgSubmitProposal(mhub2types.NewTokenInfosChangeProposal(&mhub2types.TokenInfos{TokenInfos: out}), deposit, proposer.Addr)
		if err != nil {
			return
		}
		w.St.Fault("gov_token_delisted")
		w.Submit("gov_submit", proposer, in.Net, map[string]string{"op": in.Op}, msg)
	case "relist":
		// one token is listed again with a change that re-interprets what is in flight: other external decimals,
		// the contract address in another (equally valid) spelling, or another hub id
		infos := w.ReadState().TokenInfos()
		if len(infos) == 0 {
			return
		}
		var out []*mhub2types.TokenInfo
		var maxID uint64
		for _, ti := range infos {
			if ti.Id > maxID {
				maxID = ti.Id
			}
		}
		changed := false
		for i, ti := range infos {
			c := *ti
			if i == in.Pick%len(infos) {
				switch in.Mut {
				case "decimals":
					for _, d := range []uint64{6, 18, 0, 8, 24} {
						if d != c.ExternalDecimals && c.ChainId != "minter" {
							c.ExternalDecimals = d
							changed = true
							break
						}
					}
				case "respell":
					if strings.HasPrefix(c.ExternalTokenId, "0x") {
						lo := strings.ToLower(c.ExternalTokenId)
						up := "0x" + strings.ToUpper(c.ExternalTokenId[2:])
						if lo != c.ExternalTokenId {
							c.ExternalTokenId, changed = lo, true
						} else if up != c.ExternalTokenId {
							c.ExternalTokenId, changed = up, true
						}
					}
				case "renumber":
					c.Id = maxID + 1 + uint64(in.Pick%3)
					changed = true
				}
			}
			out = append(out, &c)
		}
		if !changed {
			return
		}
		msg, err := govtypes.NewMsgSubmitProposal(mhub2types.NewTokenInfosChangeProposal(&mhub2types.TokenInfos{TokenInfos: out}), deposit, proposer.Addr)
		if err != nil {
			return
		}
		w.St.Fault("gov_token_relisted_" + in.Mut)
		w.Submit("gov_submit", proposer, in.Net, map[string]string{"op": in.Op}, msg)
	case "commission":
		infos := w.ReadState().TokenInfos()
		if len(infos) == 0 {
			return
		}
		var out []*mhub2types.TokenInfo
		for i, ti := range infos {
			c := *ti
			if i == in.Pick%len(infos) {
				if d, err := sdk.NewDecFromStr(in.Amt); err == nil {
					c.Commission = d
				}
			}
			// the proposal is written from the operators' own token table (the spelling of the contract addresses
			// there is the one the external chains' events use), not copied back from the hub
			for _, t := range w.Cfg.Tokens {
				if t.ID == c.Id && t.Chain == c.ChainId && strings.EqualFold(t.ExtID, c.ExternalTokenId) {
					c.ExternalTokenId = t.ExtID
				}
			}
			out = append(out, &c)
		}
		msg, err := govtypes.NewMsgSubmitProposal(mhub2types.NewTokenInfosChangeProposal(&mhub2types.TokenInfos{TokenInfos: out}), deposit, proposer.Addr)
		if err != nil {
			return
		}
		w.St.Fault("gov_token_infos_change")
		w.Submit("gov_submit", proposer, in.Net, map[string]string{"op": in.Op}, msg)
	case "vote":
		var resp govtypes.QueryProposalsResponse
		if err := w.N().Query("/cosmos.gov.v1beta1.Query/Proposals", &govtypes.QueryProposalsRequest{ProposalStatus: govtypes.StatusVotingPeriod}, &resp); err != nil {
			return
		}
		for _, p := range resp.Proposals {
			for _, v := range w.Vals {
				w.Submit("gov_vote", v.Oper, "", map[string]string{"id": strconv.FormatUint(p.ProposalId, 10)}, govtypes.NewMsgVote(v.Oper.Addr, p.ProposalId, govtypes.OptionYes))
			}
		}
	}
}
func (w *World) doLogicCall(in Intent) {}
