package sim

import (
	"encoding/hex"
	"fmt"
	"os"
	"sort"
	"strconv"
	"strings"
	"time"

	mhub2types "github.com/MinterTeam/mhub2/module/x/mhub2/types"
	sdk "github.com/cosmos/cosmos-sdk/types"
)

// Snap is a decoded picture of the bridge-relevant raw state at one observation point.
type Snap struct {
	At      string // "A" after BeginBlock, "B" after a tx, "C" after EndBlock, "G" initial
	Height  int64
	Time    time.Time
	Pool    map[string]map[uint64]*mhub2types.SendToExternal // chain -> id -> entry
	PoolDup map[string][]uint64                              // ids that occur more than once in a chain's pool index
	Batches map[string]map[string]*mhub2types.BatchTx        // chain -> "token|nonce" -> batch
	InBatch map[string]map[uint64][]string                   // chain -> id -> batch keys holding it
	SSets   map[string]map[uint64]*mhub2types.SignerSetTx
	Calls   map[string][]*mhub2types.ContractCallTx
	LastObs map[string]uint64
	Seq     map[string]uint64
	BNonce  map[string]uint64
	SendID  map[string]uint64
	SSNonce map[string]uint64
	ObsH    map[string]mhub2types.LatestBlockHeight
	Votes   map[string][]VoteRec
	Supply  map[string]sdk.Int
}

func bkey(token string, nonce uint64) string { return fmt.Sprintf("%s|%d", token, nonce) }

func (w *World) TakeSnap(at string) *Snap {
	st := w.ReadState()
	s := &Snap{At: at, Height: w.N().Header.Height, Time: w.N().Header.Time,
		Pool: map[string]map[uint64]*mhub2types.SendToExternal{}, PoolDup: map[string][]uint64{},
		Batches: map[string]map[string]*mhub2types.BatchTx{}, InBatch: map[string]map[uint64][]string{},
		SSets: map[string]map[uint64]*mhub2types.SignerSetTx{}, Calls: map[string][]*mhub2types.ContractCallTx{},
		LastObs: map[string]uint64{}, Seq: map[string]uint64{}, BNonce: map[string]uint64{}, SendID: map[string]uint64{}, SSNonce: map[string]uint64{},
		ObsH: map[string]mhub2types.LatestBlockHeight{}, Votes: map[string][]VoteRec{}, Supply: map[string]sdk.Int{}}
	for _, ch := range Chains {
		s.Pool[ch] = map[uint64]*mhub2types.SendToExternal{}
		for _, e := range st.Pool(ch) {
			if _, dup := s.Pool[ch][e.Id]; dup {
				s.PoolDup[ch] = append(s.PoolDup[ch], e.Id)
			}
			s.Pool[ch][e.Id] = e
		}
		s.Batches[ch] = map[string]*mhub2types.BatchTx{}
		s.InBatch[ch] = map[uint64][]string{}
		for _, b := range st.Batches(ch) {
			k := bkey(b.ExternalTokenId, b.BatchNonce)
			s.Batches[ch][k] = b
			for _, tx := range b.Transactions {
				s.InBatch[ch][tx.Id] = append(s.InBatch[ch][tx.Id], k)
			}
		}
		s.SSets[ch] = map[uint64]*mhub2types.SignerSetTx{}
		for _, ss := range st.SignerSets(ch) {
			s.SSets[ch][ss.Nonce] = ss
		}
		s.Calls[ch] = st.ContractCalls(ch)
		s.LastObs[ch] = st.LastObservedEventNonce(ch)
		s.Seq[ch] = st.OutgoingSequence(ch)
		s.BNonce[ch] = st.LastBatchNonce(ch)
		s.SendID[ch] = st.LastSendID(ch)
		s.SSNonce[ch] = st.LatestSignerSetNonce(ch)
		s.ObsH[ch] = st.LastObservedHeight(ch)
		s.Votes[ch] = st.VoteRecords(ch)
	}
	for _, d := range w.Cfg.Denoms() {
		s.Supply[d] = st.Supply(d)
	}
	return s
}

// Applied is an external event that took effect (its record flipped to Accepted) in this block.
type Applied struct {
	Chain string
	Nonce uint64
	Rec   VoteRec
	Event mhub2types.ExternalEvent
}

// Tracker is the first oracle in every list: it maintains Prev/Cur snapshots and the per-block
// derived facts the property oracles use. It reports nothing itself.
type Tracker struct {
	BaseOracle
	Prev, Cur *Snap
	PreEnd    *Snap // state just before EndBlock (after the last tx)
	Applied   []Applied
	accepted  map[string]bool
}

func (*Tracker) Property() string { return "" }

func (t *Tracker) step(w *World, at string) {
	t.Prev = t.Cur
	t.Cur = w.TakeSnap(at)
	if w.createdAt == nil {
		w.createdAt = map[string]uint64{}
	}
	for _, ch := range Chains {
		note := func(e *mhub2types.SendToExternal) {
			k := ch + "/" + strconv.FormatUint(e.Id, 10)
			if _, ok := w.createdAt[k]; !ok {
				w.createdAt[k] = e.CreatedAt
			}
		}
		for _, e := range t.Cur.Pool[ch] {
			note(e)
		}
		for _, b := range t.Cur.Batches[ch] {
			for _, e := range b.Transactions {
				note(e)
			}
		}
	}
	if t.Prev == nil {
		t.Prev = t.Cur
	}
}

func (t *Tracker) Init(w *World) {
	t.accepted = map[string]bool{}
	t.Cur = w.TakeSnap("G")
	t.Prev = t.Cur
	for _, ch := range Chains {
		for _, r := range t.Cur.Votes[ch] {
			if r.Rec.Accepted {
				t.accepted[ch+"/"+hex.EncodeToString(r.Key)] = true
			}
		}
	}
}

func (t *Tracker) AfterBegin(w *World)           { t.Applied = nil; t.step(w, "A") }
func (t *Tracker) AfterTx(w *World, r *TxResult) { t.step(w, "B") }
func (t *Tracker) AfterEnd(w *World) {
	t.PreEnd = t.Cur
	t.step(w, "C")
	t.Applied = nil
	for _, ch := range Chains {
		recs := append([]VoteRec(nil), t.Cur.Votes[ch]...)
		sort.SliceStable(recs, func(i, j int) bool { return recs[i].Nonce < recs[j].Nonce })
		for _, r := range recs {
			k := ch + "/" + hex.EncodeToString(r.Key)
			if r.Rec.Accepted && !t.accepted[k] {
				t.accepted[k] = true
				ev := DecodeEvent(r.Rec.Event)
				if os.Getenv("MHUBSIM_DEBUG") != "" && ev != nil {
					fmt.Fprintf(os.Stderr, "APPLIED h=%d %s nonce %d votes=%v event=%s\n", w.N().Header.Height, ch, r.Nonce, r.Rec.Votes, ev.String())
				}
				t.Applied = append(t.Applied, Applied{Chain: ch, Nonce: r.Nonce, Rec: r, Event: ev})
			}
		}
	}
}

func (w *World) T() *Tracker {
	if len(w.Oracles) > 0 {
		if t, ok := w.Oracles[0].(*Tracker); ok {
			return t
		}
	}
	return nil
}

// TokenOf finds the configured token of an external id on a chain (by the CURRENT hub token infos the
// configuration started with; governance changes are not generated for these oracles).
func (w *World) TokenOf(chain, extID string) *TokenCfg { return w.Cfg.TokenByExt(chain, extID) }

// TokenOfContract identifies a token by the contract it names, whatever the spelling of the address (governance
// may have re-listed the same contract in another letter case while transfers of it were pending).
func (w *World) TokenOfContract(chain, extID string) *TokenCfg {
	if t := w.Cfg.TokenByExt(chain, extID); t != nil {
		return t
	}
	if !strings.HasPrefix(extID, "0x") {
		return nil
	}
	for i := range w.Cfg.Tokens {
		if w.Cfg.Tokens[i].Chain == chain && strings.EqualFold(w.Cfg.Tokens[i].ExtID, extID) {
			return &w.Cfg.Tokens[i]
		}
	}
	return nil
}

// HubUnitsOf converts an external amount of a token into exact hub units.
func (w *World) HubUnitsOf(chain, extID string, v sdk.Int) (denom string, r interface{ String() string }, ok bool) {
	t := w.TokenOf(chain, extID)
	if t == nil {
		return "", nil, false
	}
	return t.Denom, ToHubUnits(v.BigInt(), t.Decimals), true
}
