// Package conn decides C20: the REAL connector resynchronisation (minter.GetLatestMinterBlockAndNonce),
// status file (context.LoadStatus/Commit) and command validation (command.ValidateAndComplete) run
// against a scripted Minter node (the api_service.ClientService seam, no sockets) for seeded block
// histories, with every persisted cursor x every acknowledgeable nonce enumerated as restart points,
// Minter API errors (whose retry sleeps run on the synctest fake clock) and lost/torn/garbage status files.
//
//go:debug asynctimerchan=0
package conn

import (
	"bytes"
	"encoding/json"
	"errors"
	"flag"
	"fmt"
	"math/big"
	"math/rand"
	"os"
	"path/filepath"
	"strconv"
	"strings"
	"testing"
	"testing/synctest"
	"time"

	"mhubsim/conn/relaygen"
	"mhubsim/ext"
	"mhubsim/hub"

	"github.com/MinterTeam/mhub2/minter-connector/command"
	"github.com/MinterTeam/mhub2/minter-connector/config"
	cctx "github.com/MinterTeam/mhub2/minter-connector/context"
	"github.com/MinterTeam/mhub2/minter-connector/minter"
	"github.com/MinterTeam/minter-go-sdk/v2/api/http_client"
	"github.com/MinterTeam/minter-go-sdk/v2/api/http_client/client/api_service"
	"github.com/MinterTeam/minter-go-sdk/v2/api/http_client/models"
	sdk "github.com/cosmos/cosmos-sdk/types"
	"github.com/tendermint/tendermint/libs/log"
)

// Parameters come from the environment: the connector's cosmos package parses the process flags in a package
// initialiser (config.Get), before any test flag exists, so the test binary must be started without arguments
// (and in a directory that holds a config.toml).
func envInt(k string, d int64) int64 {
	if v, err := strconv.ParseInt(os.Getenv(k), 10, 64); err == nil {
		return v
	}
	return d
}
func envStr(k, d string) string {
	if v := os.Getenv(k); v != "" {
		return v
	}
	return d
}
func envFloat(k string, d float64) float64 {
	if v, err := strconv.ParseFloat(os.Getenv(k), 64); err == nil {
		return v
	}
	return d
}

var (
	pSeed    = envInt("C20_SEED", 20261004)
	pIdx     = int(envInt("C20_IDX", 0))
	pBudget  = envFloat("C20_BUDGET", 30)
	pOut     = envStr("C20_OUT", "")
	pReplay  = envStr("C20_REPLAY", "")
	pTier    = envStr("C20_TIER", "quick")
	pReplays = envStr("C20_REPLAYDIR", "/verif/replays")
)

func TestMain(m *testing.M) {
	flag.Set("test.timeout", "6h") // no flags can be passed on the command line (see above)
	os.Exit(m.Run())
}

const multisig = "Mxb1d9e1000000000000000000000000000000b1d9"

// ---------------------------------------------------------------- scripted Minter node

type stubAPI struct {
	api_service.ClientService // everything else: nil -> panic if the connector ever calls it
	m                         *ext.Minter
	failBlocks, failStatus    int // fail the next N calls
	calls                     int
}

func (s *stubAPI) Status(p *api_service.StatusParams, _ ...api_service.ClientOption) (*api_service.StatusOK, error) {
	s.calls++
	if s.failStatus > 0 {
		s.failStatus--
		return nil, errors.New("injected: status unavailable")
	}
	return &api_service.StatusOK{Payload: &models.StatusResponse{LatestBlockHeight: s.m.Height}}, nil
}

func toTxResp(tx *ext.MTx) *models.TransactionResponse {
	r := &models.TransactionResponse{From: tx.From, Hash: tx.Hash, Height: tx.Height, Payload: tx.Payload, Type: uint64(tx.Type), Nonce: tx.Nonce}
	switch tx.Type {
	case ext.MTypeSend:
		d := models.ProtobufAny{"@type": "type.googleapis.com/api_pb.SendData", "coin": map[string]interface{}{"id": strconv.FormatUint(tx.Coin, 10), "symbol": "C"}, "to": tx.To, "value": tx.Value.String()}
		r.Data = &d
	case ext.MTypeMultisend:
		var list []interface{}
		for _, it := range tx.Items {
			list = append(list, map[string]interface{}{"coin": map[string]interface{}{"id": strconv.FormatUint(it.Coin, 10), "symbol": "C"}, "to": it.To, "value": it.Value.String()})
		}
		d := models.ProtobufAny{"@type": "type.googleapis.com/api_pb.MultiSendData", "list": list}
		r.Data = &d
	case ext.MTypeEditMultisig:
		var ws []interface{}
		for _, w := range tx.Weights {
			ws = append(ws, strconv.FormatUint(uint64(w), 10))
		}
		var as []interface{}
		for _, a := range tx.Addresses {
			as = append(as, a)
		}
		d := models.ProtobufAny{"@type": "type.googleapis.com/api_pb.EditMultisigData", "threshold": strconv.FormatUint(uint64(tx.Threshold), 10), "weights": ws, "addresses": as}
		r.Data = &d
	default:
		d := models.ProtobufAny{"@type": "type.googleapis.com/api_pb.SetCandidateOnData", "pub_key": "Mp00"}
		r.Data = &d
	}
	return r
}

func (s *stubAPI) Blocks(p *api_service.BlocksParams, _ ...api_service.ClientOption) (*api_service.BlocksOK, error) {
	s.calls++
	if s.failBlocks > 0 {
		s.failBlocks--
		return nil, errors.New("injected: blocks unavailable")
	}
	out := &models.BlocksResponse{}
	for h := p.FromHeight; h <= p.ToHeight && h <= s.m.Height; h++ {
		if h == 0 {
			continue
		}
		b := s.m.Blocks[h-1]
		br := &models.BlockResponse{Height: b.Height}
		for i := range b.Txs {
			br.Transactions = append(br.Transactions, toTxResp(&b.Txs[i]))
		}
		out.Blocks = append(out.Blocks, br)
	}
	return &api_service.BlocksOK{Payload: out}, nil
}

// ---------------------------------------------------------------- a case

type txSpec struct {
	Kind    string `json:"kind"` // deposit | baddeposit | batch | valset | badvalset | other | sendelse
	Payload string `json:"payload,omitempty"`
	Value   string `json:"value,omitempty"`
	Coin    uint64 `json:"coin,omitempty"`
}

type caseSpec struct {
	Seed       int64      `json:"seed"`
	Blocks     [][]txSpec `json:"blocks"`
	StartBlock uint64     `json:"start_block"`
	StartNonce uint64     `json:"start_event_nonce"`
	StartBatch uint64     `json:"start_batch_nonce"`
	StartVS    uint64     `json:"start_valset_nonce"`
	// one restart
	File       string `json:"file"` // "cursor" | "missing" | "empty" | "torn" | "garbage"
	FileBlock  uint64 `json:"file_block"`
	HubAck     uint64 `json:"hub_ack"`
	FailBlocks int    `json:"fail_blocks"`
	FailStatus int    `json:"fail_status"`

	polledEvents bool // out: the poll found bridge events (and died handing them over)
}

func hubAddrOK(s string) bool { _, err := sdk.AccAddressFromBech32(s); return err == nil }

func buildChain(c *caseSpec) *ext.Minter {
	m := ext.NewMinter(multisig, []string{"Mx" + strings.Repeat("11", 20)}, []uint32{1000}, 667)
	m.StartEventNonce = c.StartNonce
	nonce := uint64(0)
	for _, blk := range c.Blocks {
		for _, t := range blk {
			val, _ := new(big.Int).SetString(t.Value, 10)
			if val == nil {
				val = big.NewInt(0)
			}
			switch t.Kind {
			case "deposit", "baddeposit":
				m.Send("Mx"+strings.Repeat("ab", 20), multisig, t.Coin, val, []byte(t.Payload))
			case "sendelse":
				m.Send("Mx"+strings.Repeat("ab", 20), "Mx"+strings.Repeat("cd", 20), t.Coin, val, []byte(t.Payload))
			case "batch":
				nonce++
				m.InjectMultisig(ext.MTx{Type: ext.MTypeMultisend, From: multisig, Nonce: nonce, Items: []ext.MItem{{Coin: t.Coin, To: "Mx" + strings.Repeat("ef", 20), Value: val}}})
			case "valset", "badvalset":
				nonce++
				m.InjectMultisig(ext.MTx{Type: ext.MTypeEditMultisig, From: multisig, Nonce: nonce, Payload: []byte(t.Payload), Threshold: 667,
					Addresses: []string{"Mx" + strings.Repeat("11", 20)}, Weights: []uint32{1000}})
			default:
				m.Other("Mx"+strings.Repeat("ab", 20), ext.MTypeOther, []byte(t.Payload))
			}
		}
		m.NextBlock()
	}
	return m
}

type cursor struct {
	Block, Nonce, Batch, Valset uint64
}

// canonical computes, from the model's own classification (statement of C20), the cursor a never-restarted
// connector holds after scanning up to each block.
func canonical(m *ext.Minter, c *caseSpec) []cursor {
	out := []cursor{{Block: c.StartBlock, Nonce: c.StartNonce, Batch: c.StartBatch, Valset: c.StartVS}}
	cur := out[0]
	for bi := range m.Blocks {
		b := &m.Blocks[bi]
		if b.Height <= c.StartBlock {
			continue
		}
		for ti := range b.Txs {
			switch m.Classify(&b.Txs[ti], hubAddrOK) {
			case ext.MDeposit:
				cur.Nonce++
			case ext.MBatch:
				cur.Nonce++
				cur.Batch++
			case ext.MValset:
				cur.Nonce++
				v, _ := strconv.Atoi(string(b.Txs[ti].Payload))
				cur.Valset = uint64(v)
			}
		}
		cur.Block = b.Height
		out = append(out, cur)
	}
	return out
}

type violation struct {
	Oracle  string `json:"oracle"`
	Site    string `json:"site"`
	Message string `json:"message"`
}

func (v *violation) sig() string { return "C20/" + v.Oracle + "/" + v.Site }

type statusFile struct {
	LastCheckedMinterBlock uint64 `json:"last_checked_minter_block"`
	LastEventNonce         uint64 `json:"last_event_nonce"`
	LastBatchNonce         uint64 `json:"last_batch_nonce"`
	LastValsetNonce        uint64 `json:"last_valset_nonce"`
}

// runRestart executes ONE restart of the real connector code and judges the persisted cursor.
func runRestart(t *testing.T, c *caseSpec, dir string) (viol *violation, infra error) {
	m := buildChain(c)
	can := canonical(m, c)
	byBlock := map[uint64]cursor{}
	for _, x := range can {
		byBlock[x.Block] = x
	}
	path := filepath.Join(dir, "connector-status.json")
	os.Remove(path)
	switch c.File {
	case "cursor":
		cu, ok := byBlock[c.FileBlock]
		if !ok {
			return nil, nil
		}
		b, _ := json.Marshal(statusFile{cu.Block, cu.Nonce, cu.Batch, cu.Valset})
		os.WriteFile(path, b, 0o644)
	case "empty":
		os.WriteFile(path, []byte{}, 0o644)
	case "torn":
		cu := byBlock[c.FileBlock]
		b, _ := json.Marshal(statusFile{cu.Block, cu.Nonce, cu.Batch, cu.Valset})
		os.WriteFile(path, b[:len(b)/2], 0o644)
	case "garbage":
		os.WriteFile(path, []byte("\x00\x01not json at all{{{"), 0o644)
	case "missing":
	}
	stub := &stubAPI{m: m, failBlocks: c.FailBlocks, failStatus: c.FailStatus}
	cl, err := http_client.New("http://sim.invalid/")
	if err != nil {
		return nil, err
	}
	cl.ClientService = stub
	ctx := cctx.Context{MinterMultisigAddr: multisig, MinterClient: cl, Logger: log.NewNopLogger()}
	var panicked interface{}
	var out cctx.Context
	body := func(*testing.T) {
		defer func() {
			if r := recover(); r != nil {
				panicked = r
			}
		}()
		ctx.LoadStatus(path, config.MinterConfig{MultisigAddr: multisig, StartBlock: c.StartBlock, StartEventNonce: c.StartNonce, StartBatchNonce: c.StartBatch, StartValsetNonce: c.StartVS})
		out = minter.GetLatestMinterBlockAndNonce(ctx, c.HubAck)
	}
	if c.FailBlocks+c.FailStatus > 0 {
		// the retry paths sleep one second per failure: run them on the fake clock
		synctest.Test(t, body)
	} else {
		body(t)
	}
	if panicked != nil {
		return &violation{"cursor-consistent", "panic", fmt.Sprintf("resynchronisation panicked: %v", panicked)}, nil
	}
	// what is on disk now is what the next start (and the main loop) continues from
	raw, err := os.ReadFile(path)
	var sf statusFile
	if err != nil || json.Unmarshal(raw, &sf) != nil {
		// nothing was persisted: the in-memory cursor is what counts
		sf = statusFile{out.LastCheckedMinterBlock(), out.LastEventNonce(), out.LastBatchNonce(), out.LastValsetNonce()}
	}
	if sf.LastCheckedMinterBlock != out.LastCheckedMinterBlock() || sf.LastEventNonce != out.LastEventNonce() {
		return &violation{"cursor-consistent", "file-vs-memory", fmt.Sprintf("persisted cursor %+v differs from the cursor the connector continues with (block %d, nonce %d)", sf, out.LastCheckedMinterBlock(), out.LastEventNonce())}, nil
	}
	want, ok := byBlock[sf.LastCheckedMinterBlock]
	if !ok {
		if sf.LastCheckedMinterBlock < c.StartBlock {
			// below the configured start: count from the start values backwards is undefined; judge against start
			want = can[0]
			if sf.LastEventNonce != want.Nonce {
				return &violation{"cursor-consistent", c.File + ":below-start", fmt.Sprintf("cursor (block %d, next nonce %d) is below the configured start block %d whose nonce is %d", sf.LastCheckedMinterBlock, sf.LastEventNonce, c.StartBlock, c.StartNonce)}, nil
			}
			return nil, nil
		}
		return &violation{"cursor-consistent", "block-out-of-range", fmt.Sprintf("cursor points at block %d, chain height %d", sf.LastCheckedMinterBlock, m.Height)}, nil
	}
	if sf.LastEventNonce != want.Nonce {
		site := c.File + ":ack-" + ackPosition(c, can, m)
		return &violation{"cursor-consistent", site, fmt.Sprintf("after restart (file=%s at block %d, hub acknowledged nonce %d) the cursor is (block %d, next nonce %d); start nonce %d plus the %d bridge events at or below that block is %d",
			c.File, c.FileBlock, c.HubAck, sf.LastCheckedMinterBlock, sf.LastEventNonce, c.StartNonce, want.Nonce-c.StartNonce, want.Nonce)}, nil
	}
	if sf.LastBatchNonce != want.Batch {
		return &violation{"same-numbering", "batch-nonce", fmt.Sprintf("cursor at block %d carries batch nonce %d, canonical %d", sf.LastCheckedMinterBlock, sf.LastBatchNonce, want.Batch)}, nil
	}
	return nil, nil
}

// ackPosition classifies where the hub's acknowledged nonce falls (for stable signatures).
func ackPosition(c *caseSpec, can []cursor, m *ext.Minter) string {
	// is the acknowledged nonce the last event of a block (boundary) or inside a block?
	for i := 1; i < len(can); i++ {
		lo, hi := can[i-1].Nonce, can[i].Nonce // events of this block have nonces lo..hi-1
		if c.HubAck >= lo && c.HubAck < hi {
			if c.HubAck == hi-1 {
				return "block-boundary"
			}
			return "mid-block"
		}
	}
	if c.HubAck == 0 {
		return "none"
	}
	if c.HubAck < can[0].Nonce {
		return "before-start"
	}
	return "beyond-chain"
}

// ---------------------------------------------------------------- generation

var feeShapes = []string{"0", "1", "5", "-1", "-0", "+3", "", "abc", "1.5", "1e3", "0x10", " 7", "99999999999999999999999999999999999999999999999999999999999999999999999999999999"}

// genPayload dresses a generated command in the white space a wallet or a pretty-printing client may put around and
// inside the JSON text: the document is the same, so every part of the connector has to read it the same way.
func genPayload(r *rand.Rand, amount *big.Int, wellFormedBias bool) string {
	s := genPayloadRaw(r, amount, wellFormedBias)
	if !strings.HasPrefix(s, "{") || r.Intn(10) != 0 {
		return s
	}
	switch r.Intn(4) {
	case 0:
		return []string{"\n", " ", "\t", "\r\n  "}[r.Intn(4)] + s
	case 1:
		return s + []string{"\n", " ", "\r\n"}[r.Intn(3)]
	case 2:
		return " " + strings.Replace(strings.Replace(s, "{", "{ ", 1), "\":\"", "\" : \"", -1) + "\n"
	default:
		var buf bytes.Buffer
		if json.Indent(&buf, []byte(s), "", "  ") != nil {
			return s
		}
		return "\n" + buf.String()
	}
}

func genPayloadRaw(r *rand.Rand, amount *big.Int, wellFormedBias bool) string {
	types := []string{"send_to_hub", "send_to_ethereum", "send_to_bsc", "send_to_minter", "", "SEND_TO_HUB"}
	typ := types[r.Intn(3)]
	if !wellFormedBias && r.Intn(4) == 0 {
		typ = types[r.Intn(len(types))]
	}
	var rcp string
	hubAcc := hub.NewAccount("c20-user").Addr.String()
	switch typ {
	case "send_to_hub":
		rcp = hubAcc
		if !wellFormedBias && r.Intn(4) == 0 {
			rcp = []string{"hub1qqqq", "cosmos1dg55rtevlfxh46w88yjpdd08sqhh5cc3xhkcej", "", "0x00000000000000000000000000000000000000aa", hubAcc + "x"}[r.Intn(5)]
		}
	default:
		rcp = "0x00000000000000000000000000000000000000Aa"
		if !wellFormedBias && r.Intn(3) == 0 {
			rcp = []string{"00000000000000000000000000000000000000aa", "0x00", "0xZZ000000000000000000000000000000000000aa", hubAcc, "", "0x00000000000000000000000000000000000000aa00"}[r.Intn(6)]
		}
	}
	lim := new(big.Int).Sub(amount, new(big.Int).Quo(amount, big.NewInt(100)))
	var fee string
	switch r.Intn(8) {
	case 0:
		fee = new(big.Int).Sub(lim, big.NewInt(1)).String()
	case 1:
		fee = lim.String()
	case 2:
		fee = new(big.Int).Add(lim, big.NewInt(1)).String()
	case 3, 4:
		fee = "0"
	default:
		fee = feeShapes[r.Intn(len(feeShapes))]
		if wellFormedBias {
			fee = "0"
		}
	}
	b, _ := json.Marshal(ext.Command{Type: typ, Recipient: rcp, Fee: fee})
	if !wellFormedBias && r.Intn(12) == 0 {
		return []string{"", "{", "null", "[]", `{"type":5}`}[r.Intn(5)]
	}
	if r.Intn(14) == 0 {
		// valid JSON whose fields are all there and well formed, but one key comes a second time (or only) with a value
		// of the wrong type: a decoder fills the struct and THEN reports a type error - not a command for anybody
		return []string{
			fmt.Sprintf(`{"type":%q,"recipient":%q,"fee":%q,"fee":1}`, typ, rcp, fee),
			fmt.Sprintf(`{"type":%q,"recipient":%q,"fee":%q,"type":7}`, typ, rcp, fee),
			fmt.Sprintf(`{"type":%q,"recipient":%q,"fee":%q,"recipient":[]}`, typ, rcp, fee),
			fmt.Sprintf(`{"type":%q,"recipient":%q,"fee":0}`, typ, rcp),
		}[r.Intn(4)]
	}
	if r.Intn(14) == 0 {
		// a well-formed command that carries a key the connector does not know (wallets add memos)
		b, _ := json.Marshal(map[string]string{"type": typ, "recipient": rcp, "fee": fee, []string{"memo", "comment", "ref"}[r.Intn(3)]: "x"})
		return string(b)
	}
	if r.Intn(12) == 0 {
		// the same command with its keys spelled in another case: every part of the connector must read it the same way
		up := func(k string) string {
			if r.Intn(2) == 0 {
				return strings.ToUpper(k)
			}
			return strings.ToUpper(k[:1]) + k[1:]
		}
		return fmt.Sprintf(`{%q:%q,%q:%q,%q:%q}`, up("type"), typ, up("recipient"), rcp, up("fee"), fee)
	}
	if !wellFormedBias && r.Intn(5) == 0 {
		// objects that leave fields out: whatever a decoder kept from an earlier payload must not fill them in
		return []string{"{}", `{"fee":"0"}`, `{"fee":"10"}`, `{"type":"send_to_hub"}`, `{"type":"send_to_bsc","fee":"0"}`,
			`{"recipient":"0x00000000000000000000000000000000000000Aa"}`, `{"recipient":"` + hubAcc + `","fee":"0"}`, `{"type":"send_to_ethereum","recipient":"0x00000000000000000000000000000000000000Aa"}`}[r.Intn(8)]
	}
	return string(b)
}

func genHistory(r *rand.Rand, tier string) *caseSpec {
	c := &caseSpec{StartNonce: 1, StartBatch: 1}
	if r.Intn(4) == 0 {
		c.StartNonce = uint64(1 + r.Intn(50))
		c.StartBatch = uint64(1 + r.Intn(5))
		c.StartVS = uint64(r.Intn(5))
	}
	n := 5 + r.Intn(40)
	long := false
	if r.Intn(5) == 0 || (tier == "thorough" && r.Intn(3) == 0) {
		n = 90 + r.Intn(230) // more than one (or two) 100-block scan windows
		long = true
	}
	if r.Intn(5) == 0 {
		c.StartBlock = uint64(r.Intn(n / 2))
	}
	vs := c.StartVS
	for i := 0; i < n; i++ {
		var blk []txSpec
		k := 0
		sel := r.Intn(5)
		if long && r.Intn(3) != 0 {
			sel = 4 // sparse: long histories would otherwise explode the restart enumeration
		}
		switch sel {
		case 0:
			k = 1 + r.Intn(2)
		case 1:
			k = 1 + r.Intn(6)
		case 2:
			if r.Intn(6) == 0 {
				k = 11 + r.Intn(4) // more than one 10-message chunk in a block
			}
		}
		for j := 0; j < k; j++ {
			amount := new(big.Int).SetInt64(int64(1 + r.Intn(100000)))
			if r.Intn(5) == 0 {
				amount = new(big.Int).SetInt64(int64([]int{1, 2, 99, 100, 101, 199, 200}[r.Intn(7)]))
			}
			switch r.Intn(10) {
			case 0, 1, 2, 3:
				blk = append(blk, txSpec{Kind: "deposit", Payload: genPayload(r, amount, true), Value: amount.String(), Coin: uint64(1 + r.Intn(3))})
			case 4:
				blk = append(blk, txSpec{Kind: "baddeposit", Payload: genPayload(r, amount, false), Value: amount.String(), Coin: 1})
			case 5:
				blk = append(blk, txSpec{Kind: "batch", Value: "5", Coin: uint64(1 + r.Intn(3))})
			case 6:
				vs++
				blk = append(blk, txSpec{Kind: "valset", Payload: strconv.FormatUint(vs, 10)})
			case 7:
				blk = append(blk, txSpec{Kind: "badvalset", Payload: []string{"", "x1", "1x", "-1", "1.0"}[r.Intn(5)]})
			case 8:
				blk = append(blk, txSpec{Kind: "sendelse", Payload: genPayload(r, amount, true), Value: amount.String(), Coin: 1})
			default:
				blk = append(blk, txSpec{Kind: "other", Payload: "noise"})
			}
		}
		c.Blocks = append(c.Blocks, blk)
	}
	return c
}

// ---------------------------------------------------------------- command validation (statement vs real code)

func checkCommand(payload string, amount *big.Int) *violation {
	_, want := ext.CommandWellFormed([]byte(payload), amount, hubAddrOK)
	cmd := &command.Command{}
	if err := json.Unmarshal([]byte(payload), cmd); err != nil {
		return nil // not a command at all; the scanners skip it before validation
	}
	var got bool
	var perr interface{}
	func() {
		defer func() {
			if r := recover(); r != nil {
				perr = r
			}
		}()
		got = cmd.ValidateAndComplete(sdk.NewIntFromBigInt(amount)) == nil
	}()
	if perr != nil {
		return &violation{"command-iff", "panic", fmt.Sprintf("ValidateAndComplete(%s, amount %s) panicked: %v", payload, amount, perr)}
	}
	if got == want {
		return nil
	}
	var c ext.Command
	json.Unmarshal([]byte(payload), &c)
	site := "accepted"
	if !got {
		site = "rejected"
	}
	fee, ok := new(big.Int).SetString(c.Fee, 10)
	switch {
	case got && ok && fee.Sign() < 0:
		site += ":negative-fee"
	case got && !ok:
		site += ":non-integer-fee"
	case got:
		site += ":recipient-or-bound"
	}
	return &violation{"command-iff", site, fmt.Sprintf("command %s with amount %s: connector says well-formed=%v, the statement (valid recipient for the target chain, integer fee with 0 <= fee < amount - amount/100) says %v", payload, amount, got, want)}
}

// ---------------------------------------------------------------- driver

type result struct {
	Histories  int            `json:"histories"`
	Restarts   int            `json:"restarts"`
	Commands   int            `json:"commands"`
	Polls      int            `json:"polls"`
	Distinct   map[string]int `json:"distinct"`
	Faults     map[string]int `json:"faults"`
	Probes     map[string]int `json:"probes"`
	Violations []struct {
		Signature string `json:"signature"`
		Message   string `json:"message"`
		Replay    string `json:"replay"`
	} `json:"violations"`
	Samples []caseSpec `json:"samples"`
	WallS   float64    `json:"wall_s"`
}

type replayFile struct {
	Property  string    `json:"property"`
	Signature string    `json:"signature"`
	Message   string    `json:"message"`
	Kind      string    `json:"kind"` // restart | command
	Case      *caseSpec `json:"case,omitempty"`
	Payload   string    `json:"payload,omitempty"`
	Amount    string    `json:"amount,omitempty"`
}

func shrinkCase(t *testing.T, c *caseSpec, dir, sig string) *caseSpec {
	tStart := time.Now()
	same := func(x *caseSpec) bool {
		if time.Since(tStart).Seconds() > 15 {
			return false // bounded effort: report what we have
		}
		v, _ := runRestart(t, x, dir)
		return v != nil && v.sig() == sig
	}
	cur := *c
	// drop trailing blocks, then leading blocks' transactions
	for len(cur.Blocks) > 1 {
		x := cur
		x.Blocks = cur.Blocks[:len(cur.Blocks)-1]
		if !same(&x) {
			break
		}
		cur = x
	}
	for i := range cur.Blocks {
		for len(cur.Blocks[i]) > 0 && len(cur.Blocks) <= 60 {
			x := cur
			x.Blocks = append([][]txSpec(nil), cur.Blocks...)
			x.Blocks[i] = cur.Blocks[i][:len(cur.Blocks[i])-1]
			if !same(&x) {
				break
			}
			cur = x
		}
	}
	x := cur
	x.FailBlocks, x.FailStatus = 0, 0
	if same(&x) {
		cur = x
	}
	return &cur
}

func writeReplay(rf *replayFile) string {
	os.MkdirAll(pReplays, 0o755)
	h := 0
	for _, ch := range rf.Signature {
		h = h*31 + int(ch)
	}
	p := filepath.Join(pReplays, fmt.Sprintf("C20-%08x-%d.json", uint32(h), pIdx))
	b, _ := json.MarshalIndent(rf, "", " ")
	os.WriteFile(p, b, 0o644)
	return p
}

func TestC20(t *testing.T) {
	hub.Setup()
	dir := t.TempDir()
	if pReplay != "" {
		b, err := os.ReadFile(pReplay)
		if err != nil {
			t.Fatal(err)
		}
		var rf replayFile
		if err := json.Unmarshal(b, &rf); err != nil {
			t.Fatal(err)
		}
		var v *violation
		if rf.Kind == "command" {
			a, _ := new(big.Int).SetString(rf.Amount, 10)
			v = checkCommand(rf.Payload, a)
		} else if rf.Kind == "poll" {
			v, _ = runPoll(t, rf.Case, dir)
		} else {
			v, _ = runRestart(t, rf.Case, dir)
		}
		if v == nil {
			fmt.Printf("replay of %s: no violation (recorded %s)\n", pReplay, rf.Signature)
			return
		}
		fmt.Printf("replay of %s: %s: %s\n", pReplay, v.sig(), v.Message)
		if v.sig() == rf.Signature {
			fmt.Printf("VIOLATION property=C20 replay=%s\n", pReplay)
		}
		return
	}
	t0 := time.Now()
	res := result{Distinct: map[string]int{}, Faults: map[string]int{}, Probes: map[string]int{}}
	x := uint64(pSeed)*0x9E3779B97F4A7C15 + uint64(pIdx)*0xBF58476D1CE4E5B9 + 7
	next := func() int64 {
		x += 0x9E3779B97F4A7C15
		z := x
		z = (z ^ (z >> 30)) * 0xBF58476D1CE4E5B9
		z = (z ^ (z >> 27)) * 0x94D049BB133111EB
		return int64((z ^ (z >> 31)) >> 1)
	}
	seen := map[string]bool{}
	report := func(v *violation, rf *replayFile) {
		if seen[v.sig()] {
			return
		}
		seen[v.sig()] = true
		rf.Property, rf.Signature, rf.Message = "C20", v.sig(), v.Message
		p := writeReplay(rf)
		res.Violations = append(res.Violations, struct {
			Signature string `json:"signature"`
			Message   string `json:"message"`
			Replay    string `json:"replay"`
		}{v.sig(), v.Message, p})
	}
	for time.Since(t0).Seconds() < pBudget {
		seed := next()
		r := rand.New(rand.NewSource(seed))
		c := genHistory(r, pTier)
		c.Seed = seed
		m := buildChain(c)
		can := canonical(m, c)
		res.Histories++
		if len(res.Samples) < 1 {
			res.Samples = append(res.Samples, *c)
		}
		last := can[len(can)-1]
		// enumerate: every persisted cursor (block boundary) x every acknowledgeable nonce
		var acks []uint64
		acks = append(acks, 0)
		for n := c.StartNonce; n <= last.Nonce+1; n++ {
			acks = append(acks, n-1, n)
		}
		stride := 1
		limit := 4000
		if pTier != "thorough" {
			limit = 1500
		}
		if len(can)*len(acks) > limit {
			stride = len(can)*len(acks)/limit + 1
		}
		k := 0
		for ci := 0; ci < len(can); ci++ {
			if time.Since(t0).Seconds() > pBudget*1.5 {
				break
			}
			for _, ack := range acks {
				k++
				if stride > 1 && k%stride != int(seed%int64(stride)) {
					continue
				}
				cc := *c
				cc.File, cc.FileBlock, cc.HubAck = "cursor", can[ci].Block, ack
				if r.Intn(40) == 0 {
					cc.FailBlocks = 1 + r.Intn(2)
					res.Faults["minter_api_blocks_error"]++
				}
				if r.Intn(60) == 0 {
					cc.FailStatus = 1
					res.Faults["minter_api_status_error"]++
				}
				res.Restarts++
				res.Distinct[fmt.Sprintf("cursor/%s/ack-%s", relPos(ci, len(can)), ackPosition(&cc, can, m))]++
				res.Probes["ack-"+ackPosition(&cc, can, m)]++
				v, err := runRestart(t, &cc, dir)
				if err != nil {
					t.Fatalf("infrastructure: %v", err)
				}
				if v != nil {
					report(v, &replayFile{Kind: "restart", Case: shrinkCase(t, &cc, dir, v.sig())})
				}
			}
		}
		for _, f := range []string{"missing", "empty", "torn", "garbage"} {
			cc := *c
			cc.File = f
			cc.FileBlock = can[r.Intn(len(can))].Block
			cc.HubAck = uint64(r.Intn(int(last.Nonce) + 2))
			res.Restarts++
			res.Faults["status_file_"+f]++
			res.Distinct["file/"+f]++
			v, err := runRestart(t, &cc, dir)
			if err != nil {
				t.Fatalf("infrastructure: %v", err)
			}
			if v != nil {
				report(v, &replayFile{Kind: "restart", Case: shrinkCase(t, &cc, dir, v.sig())})
			}
		}
		// the polling loop itself (real relayMinterEvents): from every persisted cursor one poll; a poll that
		// finds bridge events dies while handing the claims over (the process is killed in CommitTx), a poll
		// that finds none returns; either way what is on disk must be a consistent cursor, and a restart from
		// it (the hub having acknowledged what was claimed before the poll) must number events canonically
		pstride := 1
		if len(can) > 60 {
			pstride = len(can)/60 + 1
		}
		for ci := 0; ci < len(can); ci += pstride {
			if time.Since(t0).Seconds() > pBudget*1.5 {
				break
			}
			cc := *c
			cc.File, cc.FileBlock = "cursor", can[ci].Block
			cc.HubAck = 0
			if can[ci].Nonce > 0 {
				cc.HubAck = can[ci].Nonce - 1
			}
			res.Polls++
			v, err := runPoll(t, &cc, dir)
			if err != nil {
				t.Fatalf("infrastructure: %v", err)
			}
			if v != nil {
				report(v, &replayFile{Kind: "poll", Case: &cc})
			} else if cc.polledEvents {
				res.Faults["connector_killed_while_submitting_claims"]++
				res.Distinct["poll/crash/"+relPos(ci, len(can))]++
			} else {
				res.Distinct["poll/quiet/"+relPos(ci, len(can))]++
			}
		}
		// command payloads: every deposit-shaped payload of this history plus fresh fuzz
		for i := 0; i < 200; i++ {
			amount := new(big.Int).SetInt64(int64(1 + r.Intn(1000)))
			if r.Intn(4) == 0 {
				amount = new(big.Int).Lsh(big.NewInt(1), uint(r.Intn(250)))
			}
			p := genPayload(r, amount, false)
			res.Commands++
			if v := checkCommand(p, amount); v != nil {
				report(v, &replayFile{Kind: "command", Payload: p, Amount: amount.String()})
			}
		}
	}
	res.WallS = time.Since(t0).Seconds()
	b, _ := json.Marshal(res)
	if pOut != "" {
		os.WriteFile(pOut, b, 0o644)
	} else {
		fmt.Println(string(b))
	}
}

func relPos(i, n int) string {
	switch {
	case i == 0:
		return "start"
	case i == n-1:
		return "tip"
	default:
		return "middle"
	}
}

// runPoll drives ONE polling step of the real connector loop from a consistent persisted cursor.
func runPoll(t *testing.T, c *caseSpec, dir string) (viol *violation, infra error) {
	m := buildChain(c)
	can := canonical(m, c)
	byBlock := map[uint64]cursor{}
	for _, x := range can {
		byBlock[x.Block] = x
	}
	cu, ok := byBlock[c.FileBlock]
	if !ok {
		return nil, nil
	}
	path := filepath.Join(dir, "connector-status.json")
	os.Remove(path)
	b, _ := json.Marshal(statusFile{cu.Block, cu.Nonce, cu.Batch, cu.Valset})
	os.WriteFile(path, b, 0o644)
	stub := &stubAPI{m: m}
	cl, err := http_client.New("http://sim.invalid/")
	if err != nil {
		return nil, err
	}
	cl.ClientService = stub
	mcfg := config.MinterConfig{MultisigAddr: multisig, StartBlock: c.StartBlock, StartEventNonce: c.StartNonce, StartBatchNonce: c.StartBatch, StartValsetNonce: c.StartVS}
	relaygen.SetCfg(&config.Config{Minter: mcfg})
	ctx := cctx.Context{MinterMultisigAddr: multisig, MinterClient: cl, Logger: log.NewNopLogger(), OrcAddress: hub.NewAccount("c20-orch").Addr}
	ctx.LoadStatus(path, mcfg)
	// TxCommitter stays nil: handing claims over kills the process (nil dereference inside CommitTx)
	var died interface{}
	func() {
		defer func() { died = recover() }()
		relaygen.RelayMinterEvents(ctx)
	}()
	c.polledEvents = died != nil
	raw, err := os.ReadFile(path)
	var sf statusFile
	if err != nil || json.Unmarshal(raw, &sf) != nil {
		return &violation{"poll-cursor", "unreadable", fmt.Sprintf("after a poll from block %d the status file is unreadable", c.FileBlock)}, nil
	}
	want, known := byBlock[sf.LastCheckedMinterBlock]
	kind := "quiet"
	if died != nil {
		kind = "killed-in-commit"
	}
	if !known {
		return &violation{"poll-cursor", kind + ":block", fmt.Sprintf("after a poll from block %d (%s) the persisted cursor points at block %d", c.FileBlock, kind, sf.LastCheckedMinterBlock)}, nil
	}
	if sf.LastEventNonce != want.Nonce || sf.LastBatchNonce != want.Batch {
		return &violation{"poll-cursor", kind + ":nonce", fmt.Sprintf("after a poll from block %d (%s) the persisted cursor is (block %d, next event nonce %d, batch nonce %d); the events at or below that block make it (%d, %d)",
			c.FileBlock, kind, sf.LastCheckedMinterBlock, sf.LastEventNonce, sf.LastBatchNonce, want.Nonce, want.Batch)}, nil
	}
	if died == nil {
		// nothing to claim in the scanned range: the cursor moved to the end of the range (at most 100 blocks)
		end := cu.Block + 100
		if end > m.Height {
			end = m.Height
		}
		if sf.LastCheckedMinterBlock != end {
			// events beyond the first 100 blocks do not matter; a quiet poll must reach the end of its range
			return &violation{"poll-cursor", "quiet:progress", fmt.Sprintf("a poll from block %d that found no bridge event left the cursor at block %d, range end %d", c.FileBlock, sf.LastCheckedMinterBlock, end)}, nil
		}
		return nil, nil
	}
	// the process died while handing claims over; the hub has what was claimed before this poll.
	// Restart with the real start-up code from what is on disk.
	ctx2 := cctx.Context{MinterMultisigAddr: multisig, MinterClient: cl, Logger: log.NewNopLogger()}
	var out cctx.Context
	var panicked interface{}
	func() {
		defer func() { panicked = recover() }()
		ctx2.LoadStatus(path, mcfg)
		out = minter.GetLatestMinterBlockAndNonce(ctx2, c.HubAck)
	}()
	if panicked != nil {
		return &violation{"poll-cursor", "restart-panic", fmt.Sprintf("restart after a killed poll panicked: %v", panicked)}, nil
	}
	w2, ok2 := byBlock[out.LastCheckedMinterBlock()]
	if !ok2 || out.LastEventNonce() != w2.Nonce || out.LastBatchNonce() != w2.Batch {
		return &violation{"poll-cursor", "restart:nonce", fmt.Sprintf("restart after a poll from block %d was killed in CommitTx (hub acknowledged %d): cursor (block %d, next event nonce %d, batch nonce %d), canonical (%d, %d)",
			c.FileBlock, c.HubAck, out.LastCheckedMinterBlock(), out.LastEventNonce(), out.LastBatchNonce(), w2.Nonce, w2.Batch)}, nil
	}
	return nil, nil
}
