package ext

import (
	"bytes"
	"crypto/ecdsa"
	"crypto/sha256"
	"encoding/binary"
	"encoding/hex"
	"encoding/json"
	"fmt"
	"math/big"
	"strconv"
	"strings"

	ethcrypto "github.com/ethereum/go-ethereum/crypto"
)

// Minter transaction types (minter-go-sdk transaction.Type*).
const (
	MTypeSend         = 0x01
	MTypeMultisend    = 0x0D
	MTypeEditMultisig = 0x12
	MTypeOther        = 0x02
)

type MItem struct {
	Coin  uint64
	To    string // Mx...
	Value *big.Int
}

type MTx struct {
	Type    int
	From    string // Mx…
	Nonce   uint64
	Payload []byte
	// send
	To    string
	Coin  uint64
	Value *big.Int
	// multisend
	Items []MItem
	// edit multisig
	Addresses []string
	Weights   []uint32
	Threshold uint32

	Hash   string
	Height uint64
}

type MBlock struct {
	Height uint64
	Txs    []MTx
}

// BridgeEventKind classifies a Minter tx from the bridge's point of view.
type BridgeEventKind int

const (
	MNotBridge BridgeEventKind = iota
	MDeposit
	MBatch
	MValset
)

// Command is the JSON payload of a deposit.
type Command struct {
	Type      string `json:"type"`
	Recipient string `json:"recipient"`
	Fee       string `json:"fee"`
}

// Minter models the Minter chain as far as the bridge is concerned.
type Minter struct {
	MultisigAddr string
	Addresses    []string // multisig members, Mx…
	Weights      []uint32
	Threshold    uint32
	Nonce        uint64 // multisig account nonce = number of txs it has sent
	Bal          map[uint64]*big.Int
	Height       uint64
	Blocks       []MBlock // Blocks[i].Height == i+1 up to Height
	pending      []MTx
	Received     map[string]map[uint64]*big.Int // what the multisig has paid out, per recipient (lower-case Mx…) and coin
	txCounter    uint64

	// bookkeeping for the simulation (the "true" numbering every honest connector computes)
	StartEventNonce uint64
	Stats           struct{ Deposits, InvalidDeposits, BatchOK, BatchRejected, ValsetOK, ValsetRejected int }
}

func NewMinter(multisig string, addrs []string, weights []uint32, threshold uint32) *Minter {
	return &Minter{MultisigAddr: multisig, Addresses: append([]string(nil), addrs...), Weights: append([]uint32(nil), weights...),
		Threshold: threshold, Bal: map[uint64]*big.Int{}, StartEventNonce: 1}
}

func (m *Minter) bal(coin uint64) *big.Int {
	b := m.Bal[coin]
	if b == nil {
		b = new(big.Int)
		m.Bal[coin] = b
	}
	return b
}

func (m *Minter) Custody(coin uint64) *big.Int { return new(big.Int).Set(m.bal(coin)) }

func (m *Minter) nextHash() string {
	m.txCounter++
	h := sha256.Sum256([]byte(fmt.Sprintf("minter/tx/%d", m.txCounter)))
	return "Mt" + hex.EncodeToString(h[:])
}

// NextBlock seals pending txs into a block.
func (m *Minter) NextBlock() *MBlock {
	m.Height++
	b := MBlock{Height: m.Height}
	for _, tx := range m.pending {
		tx.Height = m.Height
		b.Txs = append(b.Txs, tx)
	}
	m.pending = nil
	m.Blocks = append(m.Blocks, b)
	return &m.Blocks[len(m.Blocks)-1]
}

// Send is a user transaction; if it goes to the multisig it is a (potential) deposit.
func (m *Minter) Send(from, to string, coin uint64, value *big.Int, payload []byte) MTx {
	tx := MTx{Type: MTypeSend, From: from, To: to, Coin: coin, Value: new(big.Int).Set(value), Payload: append([]byte(nil), payload...), Hash: m.nextHash()}
	if to == m.MultisigAddr {
		m.bal(coin).Add(m.bal(coin), value)
	}
	m.pending = append(m.pending, tx)
	return tx
}

// Other is an unrelated transaction (noise for the scanners).
func (m *Minter) Other(from string, typ int, payload []byte) MTx {
	tx := MTx{Type: typ, From: from, Payload: payload, Hash: m.nextHash()}
	m.pending = append(m.pending, tx)
	return tx
}

// MinterSignBytes is this model's stand-in for the RLP sign bytes of a multisig tx.
func MinterSignBytes(tx *MTx) [32]byte {
	h := sha256.New()
	var b8 [8]byte
	w := func(v uint64) { binary.BigEndian.PutUint64(b8[:], v); h.Write(b8[:]) }
	w(uint64(tx.Type))
	w(tx.Nonce)
	h.Write([]byte(strings.ToLower(tx.From)))
	w(uint64(len(tx.Payload)))
	h.Write(tx.Payload)
	switch tx.Type {
	case MTypeMultisend:
		w(uint64(len(tx.Items)))
		for _, it := range tx.Items {
			w(it.Coin)
			h.Write([]byte(strings.ToLower(it.To)))
			vb := it.Value.Bytes()
			w(uint64(len(vb)))
			h.Write(vb)
		}
	case MTypeEditMultisig:
		w(uint64(tx.Threshold))
		w(uint64(len(tx.Addresses)))
		for i := range tx.Addresses {
			h.Write([]byte(strings.ToLower(tx.Addresses[i])))
			w(uint64(tx.Weights[i]))
		}
	}
	var out [32]byte
	copy(out[:], h.Sum(nil))
	return out
}

func MinterSign(tx *MTx, key *ecdsa.PrivateKey) []byte {
	d := MinterSignBytes(tx)
	sig, err := ethcrypto.Sign(d[:], key)
	if err != nil {
		panic(err)
	}
	return sig
}

func MinterAddr(key *ecdsa.PrivateKey) string {
	a := KeyAddr(key)
	return "Mx" + hex.EncodeToString(a[:])
}

// signerWeight sums weights of distinct multisig members with a valid signature.
func (m *Minter) signerWeight(tx *MTx, sigs [][]byte) uint32 {
	d := MinterSignBytes(tx)
	seen := map[string]bool{}
	var sum uint32
	for _, s := range sigs {
		if len(s) != 65 {
			continue
		}
		raw := append([]byte(nil), s...)
		if raw[64] >= 27 {
			raw[64] -= 27
		}
		pub, err := ethcrypto.SigToPub(d[:], raw)
		if err != nil {
			continue
		}
		a := ethcrypto.PubkeyToAddress(*pub)
		mx := "Mx" + hex.EncodeToString(a[:])
		if seen[mx] {
			continue
		}
		for i, member := range m.Addresses {
			if strings.EqualFold(member, mx) {
				seen[mx] = true
				sum += m.Weights[i]
			}
		}
	}
	return sum
}

// SubmitMultisig executes a multisend or edit-multisig from the bridge account if its nonce is next
// and signers reach the threshold.
func (m *Minter) SubmitMultisig(tx MTx, sigs [][]byte) error {
	err := func() error {
		if tx.From != m.MultisigAddr {
			return fmt.Errorf("not the bridge multisig")
		}
		if tx.Nonce != m.Nonce+1 {
			return fmt.Errorf("wrong nonce: expected %d got %d", m.Nonce+1, tx.Nonce)
		}
		if w := m.signerWeight(&tx, sigs); w < m.Threshold {
			return fmt.Errorf("not enough multisig votes: %d < %d", w, m.Threshold)
		}
		switch tx.Type {
		case MTypeMultisend:
			if len(tx.Items) == 0 {
				return fmt.Errorf("empty multisend")
			}
			need := map[uint64]*big.Int{}
			for _, it := range tx.Items {
				if it.Value.Sign() < 0 {
					return fmt.Errorf("negative value")
				}
				if need[it.Coin] == nil {
					need[it.Coin] = new(big.Int)
				}
				need[it.Coin].Add(need[it.Coin], it.Value)
			}
			for c, n := range need {
				if m.bal(c).Cmp(n) < 0 {
					return fmt.Errorf("insufficient funds for coin %d", c)
				}
			}
			for c, n := range need {
				m.bal(c).Sub(m.bal(c), n)
			}
			for _, it := range tx.Items {
				k := strings.ToLower(it.To)
				if m.Received == nil {
					m.Received = map[string]map[uint64]*big.Int{}
				}
				if m.Received[k] == nil {
					m.Received[k] = map[uint64]*big.Int{}
				}
				if m.Received[k][it.Coin] == nil {
					m.Received[k][it.Coin] = new(big.Int)
				}
				m.Received[k][it.Coin].Add(m.Received[k][it.Coin], it.Value)
			}
		case MTypeEditMultisig:
			if len(tx.Addresses) != len(tx.Weights) || len(tx.Addresses) == 0 || len(tx.Addresses) > 32 {
				return fmt.Errorf("malformed multisig data")
			}
			var tot uint32
			for _, w := range tx.Weights {
				if w > 1023 {
					return fmt.Errorf("weight too large")
				}
				tot += w
			}
			if tot < tx.Threshold {
				return fmt.Errorf("total weight below threshold")
			}
			m.Addresses = append([]string(nil), tx.Addresses...)
			m.Weights = append([]uint32(nil), tx.Weights...)
			m.Threshold = tx.Threshold
		default:
			return fmt.Errorf("unsupported multisig tx type")
		}
		m.Nonce = tx.Nonce
		tx.Hash = m.nextHash()
		m.pending = append(m.pending, tx)
		return nil
	}()
	switch {
	case err != nil && tx.Type == MTypeMultisend:
		m.Stats.BatchRejected++
	case err != nil:
		m.Stats.ValsetRejected++
	case tx.Type == MTypeMultisend:
		m.Stats.BatchOK++
	default:
		m.Stats.ValsetOK++
	}
	return err
}

// ---- what counts as a bridge event (from the property statement C20, not from the connector code)

var big100 = big.NewInt(100)

func isHexAddr(s string) bool {
	s = strings.TrimPrefix(strings.TrimPrefix(s, "0x"), "0X")
	if len(s) != 40 {
		return false
	}
	_, err := hex.DecodeString(s)
	return err == nil
}

// CommandWellFormed implements the statement: valid recipient for the target chain and a
// non-negative integer fee below the amount less 1%. hubAddrOK decides bech32 validity.
func CommandWellFormed(payload []byte, amount *big.Int, hubAddrOK func(string) bool) (Command, bool) {
	var c Command
	if err := json.Unmarshal(payload, &c); err != nil {
		return c, false
	}
	switch c.Type {
	case "send_to_ethereum", "send_to_bsc":
		if !isHexAddr(c.Recipient) {
			return c, false
		}
	case "send_to_hub":
		if !hubAddrOK(c.Recipient) {
			return c, false
		}
	default:
		return c, false
	}
	// "integer": decimal, or any Go integer literal (0x.., 0b.., 0o.., underscores) — the hub parses the fee
	// with the same literal syntax, so either reading denotes the same number
	fee, ok := new(big.Int).SetString(c.Fee, 10)
	if !ok {
		fee, ok = new(big.Int).SetString(c.Fee, 0)
	}
	if !ok || fee.Sign() < 0 {
		return c, false
	}
	lim := new(big.Int).Sub(amount, new(big.Int).Quo(amount, big100))
	if fee.Cmp(lim) >= 0 {
		return c, false
	}
	return c, true
}

// Classify tells whether tx is a bridge event.
func (m *Minter) Classify(tx *MTx, hubAddrOK func(string) bool) BridgeEventKind {
	switch {
	case tx.Type == MTypeSend && tx.To == m.MultisigAddr:
		if _, ok := CommandWellFormed(tx.Payload, tx.Value, hubAddrOK); ok {
			return MDeposit
		}
	case tx.Type == MTypeMultisend && tx.From == m.MultisigAddr:
		return MBatch
	case tx.Type == MTypeEditMultisig && tx.From == m.MultisigAddr:
		// the payload carries the signer-set nonce as a decimal integer (what strconv.Itoa writes and Atoi reads)
		if _, err := strconv.Atoi(string(tx.Payload)); err == nil {
			return MValset
		}
	}
	return MNotBridge
}

func parseUintStrict(s string) (uint64, error) {
	if s == "" {
		return 0, fmt.Errorf("empty")
	}
	var v uint64
	for _, c := range s {
		if c < '0' || c > '9' {
			return 0, fmt.Errorf("not a number")
		}
		v = v*10 + uint64(c-'0')
		if v > 1<<40 {
			return 0, fmt.Errorf("too large")
		}
	}
	return v, nil
}

// MEvent is a numbered bridge event.
type MEvent struct {
	EventNonce  uint64
	Kind        BridgeEventKind
	Tx          *MTx
	Cmd         Command
	BatchNonce  uint64 // for MBatch: running count of bridge multisends (1-based)
	ValsetNonce uint64
}

// BridgeEvents numbers every bridge event in sealed blocks, in chain order, from StartEventNonce.
func (m *Minter) BridgeEvents(hubAddrOK func(string) bool) []MEvent {
	var out []MEvent
	n := m.StartEventNonce
	batch := uint64(0)
	for bi := range m.Blocks {
		for ti := range m.Blocks[bi].Txs {
			tx := &m.Blocks[bi].Txs[ti]
			k := m.Classify(tx, hubAddrOK)
			if k == MNotBridge {
				continue
			}
			ev := MEvent{EventNonce: n, Kind: k, Tx: tx}
			switch k {
			case MDeposit:
				ev.Cmd, _ = CommandWellFormed(tx.Payload, tx.Value, hubAddrOK)
			case MBatch:
				batch++
				ev.BatchNonce = batch
			case MValset:
				vn, _ := strconv.Atoi(string(tx.Payload))
				ev.ValsetNonce = uint64(vn)
			}
			out = append(out, ev)
			n++
		}
	}
	return out
}

// MinterSigValid tells whether sig is addr's signature over digest d.
func MinterSigValid(d [32]byte, sig []byte, addr [20]byte) bool {
	if len(sig) != 65 {
		return false
	}
	raw := append([]byte(nil), sig...)
	if raw[64] >= 27 {
		raw[64] -= 27
	}
	pub, err := ethcrypto.SigToPub(d[:], raw)
	if err != nil {
		return false
	}
	a := ethcrypto.PubkeyToAddress(*pub)
	return bytes.Equal(a[:], addr[:])
}

// InjectMultisig appends a transaction sent by the bridge multisig without checking signatures
// (scripted histories for the connector harness).
func (m *Minter) InjectMultisig(tx MTx) {
	tx.Hash = m.nextHash()
	m.Nonce = tx.Nonce
	m.pending = append(m.pending, tx)
}
