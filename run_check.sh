#!/bin/bash
# usage: run_check.sh <Cnn> <quick|thorough>
# Rebuilds the simulator against /repo's CURRENT working tree, then runs the check.
# exit 0 held / 1 VIOLATION / 2 infrastructure trouble (never reported as a violation)
set -u
PROP="$1"; TIER="${2:-${VERIF_TIER:-quick}}"
export GOFLAGS=-mod=mod GOPROXY=off GOSUMDB=off GOTOOLCHAIN=local
export PATH="/opt/veriftools/go1.26.8/bin:$PATH"
cd /verif/sim || exit 2
mkdir -p /verif/bin
LOCK=/verif/bin/.build.lock
(
  flock 9
  if ! go1.26.8 build -o /verif/bin/mhubsim.new ./cmd/mhubsim 2>/verif/bin/build.err; then
    echo "BUILD FAILED (infrastructure, not a violation):" >&2; tail -30 /verif/bin/build.err >&2; exit 2
  fi
  mv -f /verif/bin/mhubsim.new /verif/bin/mhubsim."$PROP"
  cp -f /verif/bin/mhubsim."$PROP" /verif/bin/mhubsim
  if [ "$PROP" = C20 ]; then
    # the connector's polling loop lives in package main: a copy is generated from /repo's current main.go
    if ! /verif/sim/conn/gen_relay.sh 2>/verif/bin/build.err; then
      echo "BUILD FAILED (infrastructure, not a violation):" >&2; tail -5 /verif/bin/build.err >&2; exit 2
    fi
    if ! go1.26.8 test -c -vet=off -o /verif/bin/c20.test ./conn 2>/verif/bin/build.err; then
      echo "BUILD FAILED (infrastructure, not a violation):" >&2; tail -30 /verif/bin/build.err >&2; exit 2
    fi
  fi
) 9>"$LOCK" || exit 2
cd /verif || exit 2
exec /verif/bin/mhubsim."$PROP" check "$PROP" --tier "$TIER"
