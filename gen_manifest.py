#!/usr/bin/env python3
# Generates /verif/MANIFEST.json from the table below (kept in one place so it stays valid).
import json
CLAIMED = {
 "C01": ("exploration", "Seeded simulation of the full bridge loop (deposits on Ethereum/BSC/Minter models with arbitrary amount/fee/destination, withdrawals, cancels, batching, relays, executions, timeouts, refunds, Byzantine minority, transport faults, decimals 0..24, commission rates). After every ABCI step two exact-rational laws are checked per asset: (solvency) supply + in-flight <= custody held by the external models minus the initial liquidity; (ledger) supply + pending may grow in a step by at most what the deposits applied in that step locked on the external model.", "3/C01", "deterministic simulation: conservation invariants against external custody models"),
 "C02": ("exploration", "Every record that flips to Accepted is re-tallied by the harness from the raw staking store after that EndBlock (distinct bonded voters, exact integers 100*sum >= 66*total); every counted vote must match a claim tx the harness delivered successfully as that validator or its registered orchestrator; votes from foreign/unbonded accounts must be rejected. Workload: near-threshold power splits, stake churn and jailing between vote and tally, conflicting claims.", "3/C02", "deterministic simulation: independent re-tally + vote provenance registry"),
 "C03": ("exploration", "History check per chain: accepted nonces are exactly last+1.. in order, at most one accepted record per nonce ever, one observation event per applied nonce; per validator, an accepted claim after its first must be last+1. Workload: orchestrators ahead/behind/repeating, several claims per block, conflicting claims, drops/duplicates/reorders.", "3/C03", "deterministic simulation: nonce-order history oracle"),
 "C04": ("exploration", "After BeginBlock, after every tx and after EndBlock the pool and all batches are decoded from the raw store: every id is in exactly one place, ids never reused or resurrected, every disappearance is explained in the same step by a successful cancel, an expiry, or an applied execution of its batch; TransactionStatus follows the lifecycle.", "3/C04", "deterministic simulation: per-step location invariant + explained exits"),
 "C05": ("exploration", "Seeded whole-system simulation: the real app (cache-wrapped multistore as in a node) is driven through ABCI by three workload profiles (full bridge loop with transport faults, adversarial full-quorum events that merely pass stateless validation incl. negative/2^255-scale amounts and fees, and size stress with 70-130 pool entries written, timed out and expired in one block). Every BeginBlock/EndBlock runs under a panic handler and a wall-clock watchdog; a panic or a parked-on-lock call with x/mhub2 or x/oracle frames is the violation.", "3/C05", "deterministic simulation: seeded intent traces + adversarial quorum + size stress, ABCI watchdog"),
 "C06": ("exploration", "Three in-process replicas of the real app execute the same seeded blocks; after every ABCI call tx codes, event lists and app hashes are compared (map iteration order and goroutine scheduling differ per replica instance).", "3/C06", "deterministic simulation: replica comparison after every block"),
 "C09": ("exploration", "After every BeginBlock, per chain: each newly published signer set is compared with members/powers recomputed from the raw staking and key stores (exact rationals, |p - s*(2^32-1)/S| < 1, non-increasing order, consistent tie order, nonce +1), and the latest set must be within 5% of the current set. Workload: delegate/undelegate/create-validator/jail/unjail with equal, dominant, geometric and tiny stakes.", "3/C09", "deterministic simulation: independent recomputation from raw stores"),
 "C10": ("exploration", "Every batch first seen after BeginBlock, after a tx or after EndBlock: non-empty, <=100, uniform chain/token, fee multiset equals the top-k fees of what was available just before (ties free), batch nonces and outgoing sequences gap-free in creation order. Workload: request-batch at any time, prefix-related Minter coin ids, equal fees, >100 entries.", "3/C10", "deterministic simulation: per-step batch well-formedness oracle"),
 "C11": ("exploration", "Per-operation postconditions: a successful withdrawal debits exactly amount+fee from the sender and touches no other balance; the recorded transfer equals floor-converted amount-commission; commission <= floor(rate*(a+f)), >= the 60% tier, and agrees with the public DiscountForHolder answer; a failed request leaves bank and bridge stores byte-identical; an applied deposit credits floor(locked*10^(18-dec)) with locked taken from the external model.", "3/C11", "deterministic simulation: per-tx and per-event postconditions with exact arithmetic"),
 "C12": ("exploration", "Cancel model from the statement (success iff signer is the recorded sender and the entry is in that chain's pool), refund = recorded token+fee+commission converted back, paid once to the sender (hub origin) or as one new transfer to the originating address (cross-chain origin); nothing expires before created+timeout. Workload: foreign/unknown/batched/repeated cancels, clock jumps around the timeout.", "3/C12", "deterministic simulation: reference model for cancel/expiry"),
 "C13": ("exploration", "Whenever a batch leaves the pending set without an applied execution of itself, the external MODEL (ground truth height and last executed nonce) must be unable to execute it; never on Minter; an applied execution removes exactly that batch and re-pools exactly the older same-token ones. Workload: stalls, bursts, out-of-order execution, short timeouts.", "3/C13", "deterministic simulation: ground-truth executability oracle"),
 "C14": ("exploration", "Byzantine front-run fault: a validator below the quorum bound submits a copy of the true next event with one listed field changed (or bytes shifted across a field boundary) before the honest votes; the two claims must get different public claim identifiers and the event finally applied must equal the external model's event byte for byte.", "3/C14", "deterministic simulation: Byzantine one-field mutation of true events"),
}
NA_REASON = "check under construction in this session (design in DESIGN.md section 3); not claimed until its oracle is built and validated"
props = [json.loads(l) for l in open('/verif/properties.jsonl')]
checks, na = [], []
for p in props:
    pid = p['id']
    if pid in CLAIMED:
        cat, text, ref, tech = CLAIMED[pid]
        checks.append({
            "property_id": pid,
            "quick_cmd": f"/verif/run_check.sh {pid} quick",
            "thorough_cmd": f"/verif/run_check.sh {pid} thorough",
            "evidence_file": f"/verif/evidence/{pid}.json",
            "replay_cmd_template": "/verif/bin/mhubsim replay {path}",
            "engine": "mhubsim",
            "level_claimed": {"category": cat, "text": text, "design_ref": ref},
            "level_note": "Hub state machine is the real code; Tendermint is a totally ordered block stream; Hub2.sol and the Minter multisig are Go models transcribed from the sources; orchestrators/relayers/connector main loop are simulated actors. A clean batch is evidence, not proof.",
            "technique": tech,
        })
    else:
        na.append({"property_id": pid, "reason": NA_REASON})
m = {
 "version": 1,
 "setup_cmd": "/verif/setup.sh",
 "hooks": {"guard": "verif", "enable": "no source hook is needed: the harness module replaces github.com/MinterTeam/mhub2/module and /minter-connector with /repo and uses exported seams only (app.GetKey, BaseApp.NewContext, api_service.ClientService)", "baseline_off_cmd": "/verif/baseline_off.sh", "source_commits": [], "add_only": True},
 "engines": [{"name": "mhubsim", "path": "/verif/sim", "serves_properties": sorted(CLAIMED), "kind_free_text": "deterministic whole-system simulator with fault injection (Go): real hub app in-process + external chain models + seeded intent traces + replay/minimise"}],
 "checks": checks,
 "not_applicable": na,
 "notes": "exit 0 held / 1 VIOLATION / 2 infrastructure. Known findings: /verif/known_findings.json. Repairs of genuine defects are 'fix:' commits in /repo, listed there as fixed entries.",
}
json.dump(m, open('/verif/MANIFEST.json','w'), indent=1)
print("claimed", len(checks), "na", len(na))
