package sim

import "math/rand"

// tuneConfig applies per-property configuration needs on top of the swarm draw.
func tuneConfig(c *Config, prop string, r *rand.Rand) {
	switch prop {
	case "C06":
		c.Replicas = 3
	}
}

// Drain lets the honest machinery settle what is in flight: faults stop, stalled chains resume,
// every orchestrator polls and signs, relayers submit, blocks are produced. It is also the window
// in which bounded liveness is judged.
func (g *Gen) Drain() {
	w := g.W
	for _, ch := range Chains {
		if w.Stalled[ch] {
			g.emit(Intent{T: "stall", Chain: ch, Op: "off"})
		}
	}
	w.FaultsStoppedAt = w.N().Height
	rounds := 8
	for k := 0; k < rounds && !w.Stopped(); k++ {
		for _, ch := range Chains {
			for v := range w.Vals {
				g.emit(Intent{T: "orch_poll", V: v, Chain: ch, N: 10})
			}
		}
		g.emit(Intent{T: "block", Dt: 5, N: 1})
		for _, ch := range Chains {
			for v := range w.Vals {
				g.emit(Intent{T: "orch_sign", V: v, Chain: ch})
			}
		}
		g.emit(Intent{T: "block", Dt: 5, N: 1})
		for _, ch := range Chains {
			g.emit(Intent{T: "relay", Chain: ch, Op: "valset", Pick: 0})
			g.emit(Intent{T: "relay", Chain: ch, Op: "batch", Pick: 0, Gas: "1000"})
			g.emit(Intent{T: "relay", Chain: ch, Op: "batch", Pick: 1, Gas: "1000"})
		}
		g.emit(Intent{T: "block", Dt: 5, N: 1})
	}
}
