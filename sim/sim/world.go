package sim

import (
	"crypto/ecdsa"
	"encoding/hex"
	"fmt"
	"math/big"
	"sync"
	"time"

	"mhubsim/ext"
	"mhubsim/hub"

	mhub2types "github.com/MinterTeam/mhub2/module/x/mhub2/types"
	oracletypes "github.com/MinterTeam/mhub2/module/x/oracle/types"
	"github.com/cosmos/cosmos-sdk/crypto/keys/ed25519"
	sdk "github.com/cosmos/cosmos-sdk/types"
	abci "github.com/tendermint/tendermint/abci/types"
)

const ChainID = "mhub-sim"

type ValActor struct {
	Idx    int
	Oper   *hub.Account
	Cons   *ed25519.PrivKey
	Orch   map[string]*hub.Account      // per chain orchestrator account (only meaningful when a key is registered)
	ExtKey map[string]*ecdsa.PrivateKey // per chain external key
}

func (v *ValActor) ExtAddr(chain string) [20]byte { return ext.KeyAddr(v.ExtKey[chain]) }
func (v *ValActor) ExtHex(chain string) string {
	a := v.ExtAddr(chain)
	return "0x" + hex.EncodeToString(a[:])
}

type User struct {
	Idx    int
	Acc    *hub.Account
	ExtKey *ecdsa.PrivateKey
}

func (u *User) Eth() [20]byte { return ext.KeyAddr(u.ExtKey) }
func (u *User) EthHex() string {
	a := u.Eth()
	return "0x" + hex.EncodeToString(a[:])
}
func (u *User) Mx() string {
	a := u.Eth()
	return "Mx" + hex.EncodeToString(a[:])
}

// PendingTx is a signed hub transaction travelling through the simulated network / mempool.
type PendingTx struct {
	Bytes     []byte
	Kind      string // intent kind that produced it
	Signer    string // bech32
	Msgs      []sdk.Msg
	DeliverAt int64 // first block height that may include it
	Meta      map[string]string
	Intent    int // index of the intent that produced it
	Seq       uint64
}

// Violation is a property failure found by an oracle.
type Violation struct {
	Property string `json:"property"`
	Oracle   string `json:"oracle"`
	Site     string `json:"site"`
	Message  string `json:"message"`
	Height   int64  `json:"height"`
	IntentIx int    `json:"intent_index"`
}

func (v *Violation) Signature() string { return v.Property + "/" + v.Oracle + "/" + v.Site }

// World is the whole simulated system.
// MidCrash asks for a node crash inside the next block.
type MidCrash struct {
	Node, Pick int
	AfterEnd   bool
}

type World struct {
	preEndHolders *oracletypes.Holders    // holder list in force while the block's events are applied
	preEndTokens  []*mhub2types.TokenInfo // token list just before EndBlock (governance changes it in EndBlock)
	MidCrash      *MidCrash
	createdAt     map[string]uint64 // chain/id -> creation time of a transfer as recorded when it was first observed
	// Halted: the history left the domain of the properties (Tendermint itself stops the chain); the run ends without a verdict on later steps
	Halted string
	Cfg    Config
	Nodes  []*hub.Node
	Now    time.Time
	Eth    map[string]*ext.Eth
	Minter *ext.Minter
	Vals   []*ValActor
	Users  []*User
	Extra  map[string]*hub.Account // other hub accounts by label (foreign senders, new validators …)

	Mempool []*PendingTx
	txSeq   uint64

	Stalled   map[string]bool
	extMsAcc  map[string]uint64
	CurIntent int

	Oracles []Oracle
	Viol    *Violation
	Crash   *hub.Crash
	St      *Stats
	Log     []string // deterministic event log (for the determinism self-test)
	LogOn   bool

	// ledgers shared by oracles
	GenesisSupply   map[string]sdk.Int
	Liquidity0      map[string]*big.Rat // per denom: custody − supply at genesis, in hub (18-dec) units
	ColdExec        map[string]*big.Rat
	LastBlockTxs    []TxResult
	Mismatch        *ReplicaMismatch
	beginDigest     string
	Trail           []string // per committed block: height, app hash, begin/end event digests, tx answers (replica 0) - compared across OS processes (C06)
	endDigest       string
	KeysSet         map[string]bool
	mEvCache        []ext.MEvent
	mEvCacheH       uint64
	FaultsStoppedAt int64
	Settled         bool
	Tainted         bool
	SkippedAhead    map[string]bool
	relayMem        map[string][]relayMemo
	Forked          bool
	ForkAt          int
	ForkHeight      int64
	Notes           []*Violation
	pend            map[string][2]uint64
	preEndBal       map[string]sdk.Int
	booting         bool
	ByzVals         map[string]bool
	lastKeyMsg      map[string]*mhub2types.MsgDelegateKeys
	keyModels       map[string]*keyModel
	extKeyByAddr    map[[20]byte]*ecdsa.PrivateKey
	BlockEvents     []abci.Event // begin+end block events of the current block (replica 0)
}

type TxResult struct {
	Tx   *PendingTx
	Code uint32
	Log  string
	Res  abci.ResponseDeliverTx
}

func (w *World) Logf(format string, a ...interface{}) {
	if w.LogOn {
		w.Log = append(w.Log, fmt.Sprintf(format, a...))
	}
}

func (w *World) N() *hub.Node { return w.Nodes[0] }

func (w *World) Fail(prop, oracle, site, msg string) {
	if w.Viol != nil {
		return
	}
	w.Viol = &Violation{Property: prop, Oracle: oracle, Site: site, Message: msg, Height: w.N().Header.Height, IntentIx: w.CurIntent}
	w.Logf("VIOLATION %s: %s", w.Viol.Signature(), msg)
}

func (w *World) Stopped() bool { return w.Viol != nil || w.Crash != nil || w.Halted != "" }

func tokensFromPower(p int64) sdk.Int { return sdk.NewInt(p).Mul(sdk.NewInt(1_000_000)) }

func pow10(n uint64) *big.Int {
	return new(big.Int).Exp(big.NewInt(10), new(big.Int).SetUint64(n), nil)
}

// ToHubUnits converts an external-unit integer into an exact rational number of hub (18-dec) units.
func ToHubUnits(v *big.Int, dec uint64) *big.Rat {
	r := new(big.Rat).SetInt(v)
	if dec <= 18 {
		return r.Mul(r, new(big.Rat).SetInt(pow10(18-dec)))
	}
	return r.Quo(r, new(big.Rat).SetInt(pow10(dec-18)))
}

var tierValues = []int64{1, 2, 4, 8, 16, 32}

func holderValue(tier int) sdk.Int {
	one := sdk.NewIntFromBigInt(pow10(18))
	if tier < 6 {
		return one.MulRaw(tierValues[tier])
	}
	return one.MulRaw(tierValues[tier-6]).SubRaw(1)
}

// NewWorld builds genesis, the hub replicas and the external models from a configuration.
func NewWorld(cfg Config, oracles []Oracle, logOn bool) (*World, error) {
	hub.Setup()
	w := &World{Cfg: cfg, Eth: map[string]*ext.Eth{}, Extra: map[string]*hub.Account{}, Stalled: map[string]bool{}, extMsAcc: map[string]uint64{},
		Oracles: oracles, LogOn: logOn, KeysSet: map[string]bool{}, ByzVals: map[string]bool{}, SkippedAhead: map[string]bool{}, relayMem: map[string][]relayMemo{}, extKeyByAddr: map[[20]byte]*ecdsa.PrivateKey{},
		St: NewStats(), GenesisSupply: map[string]sdk.Int{}, Liquidity0: map[string]*big.Rat{}, ColdExec: map[string]*big.Rat{}}
	w.Now = time.Unix(1_700_000_000, 0).UTC()

	for i := 0; i < cfg.NVals; i++ {
		v := &ValActor{Idx: i, Oper: hub.NewAccount(fmt.Sprintf("val%d", i)), Cons: hub.DetConsKey(fmt.Sprintf("val%d", i)),
			Orch: map[string]*hub.Account{}, ExtKey: map[string]*ecdsa.PrivateKey{}}
		if cfg.EdgeOper && i < 2 {
			// account addresses at the two ends of the key space (store ranges bounded by "prefix + 0xff" miss the first)
			v.Oper = edgeAccount(fmt.Sprintf("val%d", i), []byte{0xff, 0x00}[i])
		}
		for _, ch := range Chains {
			v.Orch[ch] = hub.NewAccount(fmt.Sprintf("orch%d-%s", i, ch))
			if cfg.EdgeOper && i < 2 {
				v.Orch[ch] = edgeAccount(fmt.Sprintf("orch%d-%s", i, ch), []byte{0x00, 0xff}[i])
			}
			v.ExtKey[ch] = ext.DetEthKey(fmt.Sprintf("val%d-%s", i, ch))
			if cfg.EdgeKeys && i < 2 {
				// addresses at the two ends of the key space: 0xff... sorts after every prefix bound built by
				// appending 0xff, 0x00... is what prefix stripping and number-like parsing get wrong
				v.ExtKey[ch] = edgeKey(fmt.Sprintf("val%d-%s", i, ch), []byte{0xff, 0x00}[i])
			}
		}
		w.Vals = append(w.Vals, v)
		for _, ch := range Chains {
			w.extKeyByAddr[v.ExtAddr(ch)] = v.ExtKey[ch]
		}
	}
	for i := 0; i < cfg.NUsers; i++ {
		w.Users = append(w.Users, &User{Idx: i, Acc: hub.NewAccount(fmt.Sprintf("user%d", i)), ExtKey: userExtKey(i)})
	}
	for _, l := range []string{"foreign0", "foreign1", "newval0", "newval1", "relayer"} {
		w.Extra[l] = hub.NewAccount(l)
	}

	funds, ok := sdk.NewIntFromString(cfg.UserFunds)
	if !ok {
		return nil, fmt.Errorf("bad user funds")
	}

	spec := hub.GenesisSpec{ChainID: ChainID, Time: w.Now, Balances: map[string]sdk.Coins{},
		UnbondingTime: time.Duration(cfg.UnbondingSecs) * time.Second, MaxValidators: cfg.MaxValidators,
		SignedBlocksWindow: 8, MinSignedPerWindow: sdk.NewDecWithPrec(5, 1), DowntimeJail: 20 * time.Second,
		VotingPeriod: 20 * time.Second}
	for i, v := range w.Vals {
		spec.Validators = append(spec.Validators, hub.ValSpec{Oper: v.Oper, Cons: v.Cons, Tokens: tokensFromPower(cfg.Stakes[i]), Bonded: true})
	}
	addBal := func(a sdk.AccAddress, c sdk.Coins) {
		k := a.String()
		if _, ok := spec.Balances[k]; !ok {
			spec.BalanceOrder = append(spec.BalanceOrder, k)
			spec.Balances[k] = sdk.NewCoins()
		}
		spec.Balances[k] = spec.Balances[k].Add(c...)
	}
	stakeCoins := sdk.NewCoins(sdk.NewCoin(hub.BondDenom, tokensFromPower(1000)))
	for _, v := range w.Vals {
		addBal(v.Oper.Addr, stakeCoins)
		for _, ch := range Chains {
			addBal(v.Orch[ch].Addr, sdk.NewCoins(sdk.NewInt64Coin(hub.BondDenom, 1)))
		}
	}
	totalFunds := map[string]sdk.Int{}
	for _, u := range w.Users {
		coins := sdk.NewCoins(sdk.NewCoin(hub.BondDenom, tokensFromPower(10)))
		for _, d := range cfg.Denoms() {
			coins = coins.Add(sdk.NewCoin(d, funds))
			if _, ok := totalFunds[d]; !ok {
				totalFunds[d] = sdk.ZeroInt()
			}
			totalFunds[d] = totalFunds[d].Add(funds)
		}
		addBal(u.Acc.Addr, coins)
	}
	for _, l := range []string{"foreign0", "foreign1", "newval0", "newval1", "relayer"} {
		addBal(w.Extra[l].Addr, sdk.NewCoins(sdk.NewCoin(hub.BondDenom, tokensFromPower(500))))
	}
	for d, t := range totalFunds {
		w.GenesisSupply[d] = t
	}

	// ---- mhub2 genesis
	params := mhub2types.DefaultParams()
	params.GravityId = cfg.GravityID
	params.TargetEthTxTimeout = cfg.TargetEthTxTimeoutMs
	params.AverageBlockTime = cfg.AvgBlockMs
	params.AverageEthereumBlockTime = cfg.AvgEthBlockMs
	params.AverageBscBlockTime = cfg.AvgBscBlockMs
	params.OutgoingTxTimeout = cfg.OutgoingTxTimeoutMs
	if cfg.SignerSetWindow > 0 {
		params.SignedSignerSetTxsWindow = cfg.SignerSetWindow
	}
	var infos []*mhub2types.TokenInfo
	for _, t := range cfg.Tokens {
		infos = append(infos, &mhub2types.TokenInfo{Id: t.ID, Denom: t.Denom, ChainId: t.Chain, ExternalTokenId: t.ExtID,
			ExternalDecimals: t.Decimals, Commission: sdk.MustNewDecFromStr(t.Commission)})
	}
	mg := &mhub2types.GenesisState{Params: params, TokenInfos: &mhub2types.TokenInfos{TokenInfos: infos}}
	for ci, ch := range Chains {
		es := &mhub2types.ExternalState{ChainId: ch}
		if ch != "minter" {
			es.LastOutgoingBatchTxNonce = cfg.BatchNonceStart
		}
		if cfg.GenesisOutgoing && ch != "minter" {
			// two batches that were pending when the genesis was written (each takes a sequence number at import)
			var n uint64
			for _, t := range cfg.Tokens {
				if t.Chain != ch || n >= 2 {
					continue
				}
				n++
				b := &mhub2types.BatchTx{BatchNonce: cfg.BatchNonceStart + n, Timeout: 1 << 40, ExternalTokenId: t.ExtID,
					Transactions: []*mhub2types.SendToExternal{{Id: n, Sender: TempAddr().String(), ExternalRecipient: "0x00000000000000000000000000000000000000c1", ChainId: ch,
						Token: mhub2types.ExternalToken{TokenId: t.ID, ExternalTokenId: t.ExtID, Amount: sdk.NewInt(1000)}, Fee: mhub2types.ExternalToken{TokenId: t.ID, ExternalTokenId: t.ExtID, Amount: sdk.NewInt(int64(n))},
						ValCommission: mhub2types.ExternalToken{TokenId: t.ID, ExternalTokenId: t.ExtID, Amount: sdk.ZeroInt()}, TxHash: fmt.Sprintf("genesis-%d", n)}}}
				if any, err := mhub2types.PackOutgoingTx(b); err == nil {
					es.OutgoingTxs = append(es.OutgoingTxs, any)
				}
			}
			es.LastOutgoingBatchTxNonce = cfg.BatchNonceStart + n
		}
		for vi, v := range w.Vals {
			if cfg.Keys[vi][ci] {
				es.DelegateKeys = append(es.DelegateKeys, &mhub2types.MsgDelegateKeys{ValidatorAddress: v.Oper.ValAddr().String(),
					OrchestratorAddress: v.Orch[ch].Addr.String(), ExternalAddress: v.ExtHex(ch), EthSignature: []byte{1}, ChainId: ch})
			}
		}
		mg.ExternalStates = append(mg.ExternalStates, es)
	}
	spec.Mhub2 = mg

	og := oracletypes.DefaultGenesisState()
	hl := &oracletypes.Holders{}
	for i, u := range w.Users {
		if i < len(cfg.HolderTier) && cfg.HolderTier[i] >= 0 {
			a := u.Eth()
			hl.List = append(hl.List, &oracletypes.Holder{Address: hex.EncodeToString(a[:]), Value: holderValue(cfg.HolderTier[i])})
		}
	}
	og.Holders = hl
	if cfg.WithPrices {
		pl := &oracletypes.Prices{}
		names := append([]string{"eth", "ethereum/gas", "bnb", "bsc/gas"}, cfg.Denoms()...)
		seen := map[string]bool{}
		for i, n := range names {
			if seen[n] {
				continue
			}
			seen[n] = true
			pl.List = append(pl.List, &oracletypes.Price{Name: n, Value: sdk.NewDec(int64(1 + i*7%13))})
		}
		og.Prices = pl
	}
	spec.Oracle = og

	appState, err := hub.BuildGenesis(spec)
	if err != nil {
		return nil, err
	}
	if cfg.Replicas < 1 {
		cfg.Replicas = 1
		w.Cfg.Replicas = 1
	}
	for i := 0; i < cfg.Replicas; i++ {
		n := hub.NewNode(ChainID)
		if c := n.InitChain(appState, w.Now, 1); c != nil {
			return nil, fmt.Errorf("init chain: %v", c)
		}
		// InitChain leaves deliverState set; commit genesis by running block 1 lazily (first ProduceBlock)
		w.Nodes = append(w.Nodes, n)
	}

	if err := w.bootstrap(totalFunds); err != nil {
		return nil, err
	}
	return w, nil
}

// bootstrap runs block 1 (in which the hub publishes its first signer set per chain) and then deploys
// the external models with exactly that set, as solidity/get-valset and the deploy script do.
func (w *World) bootstrap(totalFunds map[string]sdk.Int) error {
	cfg := w.Cfg
	w.booting = true
	w.ProduceBlock(5, nil)
	w.booting = false
	if w.Crash != nil {
		return fmt.Errorf("bootstrap block: %v", w.Crash)
	}
	thr := new(big.Int).Mul(new(big.Int).Lsh(big.NewInt(1), 32), new(big.Int).SetUint64(cfg.ThresholdNum))
	thr.Quo(thr, new(big.Int).SetUint64(cfg.ThresholdDen))
	st := w.ReadState()
	for _, ch := range []string{"ethereum", "bsc"} {
		ss := st.LatestSignerSet(ch)
		if ss == nil || len(ss.Signers) == 0 {
			continue // no validator registered a key for this chain: the chain stays undeployed
		}
		var members []ext.Member
		for _, s := range ss.Signers {
			members = append(members, ext.Member{Addr: ext.ParseAddr(s.ExternalAddress), Power: s.Power})
		}
		e, err := ext.NewEth(ch, []byte(cfg.GravityID), new(big.Int).Set(thr), members, cfg.EthStartHeight)
		if err != nil {
			continue // initial set cannot reach the threshold (e.g. a single member with power 2^32-1 < threshold never happens; kept for safety)
		}
		w.Eth[ch] = e
	}
	if ss := st.LatestSignerSet("minter"); ss != nil && len(ss.Signers) > 0 {
		var addrs []string
		var weights []uint32
		var tot uint64
		for _, s := range ss.Signers {
			tot += s.Power
		}
		for _, s := range ss.Signers {
			a := ext.ParseAddr(s.ExternalAddress)
			addrs = append(addrs, "Mx"+hex.EncodeToString(a[:]))
			weights = append(weights, uint32(new(big.Int).Quo(new(big.Int).Mul(new(big.Int).SetUint64(s.Power), big.NewInt(1000)), new(big.Int).SetUint64(tot)).Uint64()))
		}
		w.Minter = ext.NewMinter("Mxb1d9e1000000000000000000000000000000b1d9", addrs, weights, 667)
	}
	// custody: backing of the genesis vouchers plus deep liquidity on every chain (see DESIGN C01)
	for _, t := range cfg.Tokens {
		tf := totalFunds[t.Denom].BigInt()
		var amt *big.Int
		if t.Decimals >= 18 {
			amt = new(big.Int).Mul(tf, pow10(t.Decimals-18))
		} else {
			amt = new(big.Int).Quo(new(big.Int).Add(tf, new(big.Int).Sub(pow10(18-t.Decimals), big.NewInt(1))), pow10(18-t.Decimals))
		}
		amt.Add(amt, new(big.Int).Mul(pow10(t.Decimals), pow10(12)))
		if t.Chain == "minter" {
			if w.Minter != nil {
				w.Minter.Bal[mustUint(t.ExtID)] = new(big.Int).Set(amt)
			}
		} else if e := w.Eth[t.Chain]; e != nil {
			e.Mint(ext.ParseAddr(t.ExtID), e.ContractAddr, amt)
		}
	}
	for _, o := range w.Oracles {
		o.Init(w)
	}
	return nil
}

func mustUint(s string) uint64 {
	var v uint64
	for _, c := range s {
		if c < '0' || c > '9' {
			return 0
		}
		v = v*10 + uint64(c-'0')
	}
	return v
}

func TempAddr() sdk.AccAddress { return mhub2types.TempAddress }

// Note records a violation without stopping the run (several independent findings per run, C15).
func (w *World) Note(prop, oracle, site, msg string) {
	v := &Violation{Property: prop, Oracle: oracle, Site: site, Message: msg, Height: w.N().Height, IntentIx: w.CurIntent}
	for _, o := range w.Notes {
		if o.Signature() == v.Signature() {
			return
		}
	}
	w.Notes = append(w.Notes, v)
	w.Logf("NOTE %s: %s", v.Signature(), msg)
}

var userKeyCache sync.Map

// userExtKey: deterministic external keys; odd users get addresses that begin with a zero nibble (user 3: a
// zero byte), the shape that prefix-stripping and number-like parsing of addresses get wrong.
var edgeKeyCache sync.Map

var edgeAccCache sync.Map

// edgeAccount: a deterministic hub account whose address starts with the given byte.
func edgeAccount(label string, first byte) *hub.Account {
	id := fmt.Sprintf("%s/%02x", label, first)
	if a, ok := edgeAccCache.Load(id); ok {
		c := *a.(*hub.Account)
		return &c
	}
	for j := 0; ; j++ {
		a := hub.NewAccount(fmt.Sprintf("%s/e%d", id, j))
		if a.Addr[0] == first {
			edgeAccCache.Store(id, a)
			c := *a
			return &c
		}
	}
}

// edgeKey: a deterministic key whose address starts with the given byte.
func edgeKey(label string, first byte) *ecdsa.PrivateKey {
	id := fmt.Sprintf("%s/%02x", label, first)
	if k, ok := edgeKeyCache.Load(id); ok {
		return k.(*ecdsa.PrivateKey)
	}
	for j := 0; ; j++ {
		k := ext.DetEthKey(fmt.Sprintf("%s/e%d", id, j))
		if a := ext.KeyAddr(k); a[0] == first {
			edgeKeyCache.Store(id, k)
			return k
		}
	}
}

func userExtKey(i int) *ecdsa.PrivateKey {
	if k, ok := userKeyCache.Load(i); ok {
		return k.(*ecdsa.PrivateKey)
	}
	k := ext.DetEthKey(fmt.Sprintf("user%d", i))
	if i%2 == 1 {
		for j := 0; ; j++ {
			k = ext.DetEthKey(fmt.Sprintf("user%d/z%d", i, j))
			a := ext.KeyAddr(k)
			if (i%4 == 3 && a[0] == 0) || (i%4 == 1 && a[0]>>4 == 0 && a[0] != 0) {
				break
			}
		}
	}
	userKeyCache.Store(i, k)
	return k
}
