package sim

import (
	"fmt"
	"math/big"
	"math/rand"
	"os"
	"strconv"
	"strings"
)

// Gen produces intents adaptively: it may look at the world (committed hub state, external models)
// to choose meaningful parameters, and every choice comes from r. The produced intents are recorded;
// replay executes the recorded list and never calls Gen.
type Gen struct {
	backlogDone bool
	R             *rand.Rand
	W             *World
	Profile       string
	Weights       map[string]int
	FaultP        float64 // probability that a tx-producing intent carries a transport fault
	Out           []Intent
	byzSet        map[int]bool
	EveryBoundary bool
}

func weightsFor(profile string) map[string]int {
	base := map[string]int{"block": 22, "user_send": 12, "user_cancel": 3, "req_batch": 3, "ext_deposit": 8,
		"poll_all": 10, "orch_poll": 6, "sign_all": 7, "orch_sign": 3, "relay": 10, "stall": 1, "ext_tick": 2,
		"stake": 2, "oracle_round": 1, "byz_claim": 2, "byz_first": 2, "node_restart": 1, "clock_jump": 2, "batch_race": 2, "gov": 1}
	switch profile {
	case "C05adv":
		return map[string]int{"block": 20, "adv_event": 14, "user_send": 10, "req_batch": 4, "user_cancel": 2, "clock_jump": 2, "sign_all": 1, "huge_fees": 3, "oracle_round": 4, "gov": 2}
	case "C05size":
		return map[string]int{"block": 10, "size_burst": 6, "poll_all": 8, "sign_all": 4, "relay": 4, "clock_jump": 3, "ext_deposit": 3, "ext_tick": 2}
	case "C08":
		base["batch_race"] = 6
		base["stake"] = 5
		base["valset_lag"] = 4
	case "C04", "C10", "C12", "C13":
		base["prefix_mix"] = 2
		if profile == "C10" {
			base["size_burst"] = 2
			base["gov"] = 3
			base["ext_deposit"] = 16 // transfers that arrive from another chain (recipients in the spellings deposits allow)
			base["poll_all"] = 14
		}
		if profile == "C12" {
			base["gov"] = 3
		}
		if profile == "C13" || profile == "C04" {
			base["gov"] = 3
		}
		base["cancel_pair"] = 5
		base["batch_race"] = 7
		if profile == "C12" || profile == "C04" {
			base["expiry_edge"] = 4
		}
		if profile == "C12" {
			base["overflow_refund"] = 2
		}
		if profile == "C13" || profile == "C04" {
			base["timeout_inversion"] = 4
		}
		base["user_send"] = 20
		base["user_cancel"] = 8
		base["req_batch"] = 8
		base["clock_jump"] = 4
		base["ext_tick"] = 4
		base["stall"] = 2
	case "C14":
		base["byz_claim"] = 22
		base["orch_poll"] = 10
		base["ext_deposit"] = 14
		base["user_send"] = 14
		base["relay"] = 14
		base["sign_all"] = 10
	case "C02", "C03":
		base["phantom_orch"] = 3
		base["val_recreate"] = 3
		base["rotate_reclaim"] = 3
		base["byz_claim"] = 8
		base["orch_poll"] = 14
		base["stake"] = 6
		base["ext_deposit"] = 14
	case "C09":
		base["set_keys"] = 3
		base["valset_lag"] = 3
		base["stake"] = 14
		base["block"] = 30
	case "C18":
		base["holders_split"] = 5
		base["oracle_round"] = 12
		base["oracle_claim"] = 10
		base["stake"] = 4
	case "C15":
		base["export_import"] = 6
		base["oracle_round"] = 3
		base["holders_only"] = 2
		base["stake"] = 4
		base["gov"] = 3
		base["set_keys"] = 3
	case "C16":
		base["valset_lag"] = 3
		base["batch_backlog"] = 1
		base["confirm_fuzz"] = 18
		base["sign_all"] = 6
		base["orch_sign"] = 6
		base["user_send"] = 14
		base["stake"] = 12
	case "C17":
		base["set_keys"] = 22
		base["orch_release_steal"] = 3
		base["val_removed_steal"] = 3
		base["phantom_orch"] = 3
		base["poll_all"] = 12
		base["ext_deposit"] = 10
		base["stake"] = 4
	case "C06":
		base["set_keys"] = 2
		base["xchain_expire"] = 4
		base["gov"] = 4
		base["node_restart"] = 4
		base["clock_jump"] = 4
	case "C01":
		base["timeout_inversion"] = 2
		base["gov"] = 5
		base["prefix_mix"] = 3
	case "C05":
		base["gov"] = 4
		base["clock_jump"] = 5
	case "C19", "C11":
		base["oracle_round"] = 3
		base["user_send"] = 18
		base["ext_deposit"] = 12
		if profile == "C11" {
			base["gov"] = 3
			base["clock_jump"] = 4
		}
	}
	return base
}

func NewGen(r *rand.Rand, w *World, profile string) *Gen {
	g := &Gen{R: r, W: w, Profile: profile, Weights: weightsFor(profile), byzSet: map[int]bool{}}
	if profile == "C15" && r.Intn(3) == 0 {
		g.EveryBoundary = true
		w.St.Probe("every-boundary-run")
	}
	switch r.Intn(4) {
	case 0:
		g.FaultP = 0 // fault-free run: relaxations under faults cannot hide an ordinary bug
	case 1:
		g.FaultP = 0.05
	default:
		g.FaultP = 0.15
	}
	return g
}

func (g *Gen) emit(in Intent) {
	ix := len(g.Out)
	g.Out = append(g.Out, in)
	g.W.Exec(ix, in)
	// C15 enumeration mode: the restart is tried at EVERY block boundary of the run
	if g.EveryBoundary && in.T == "block" && !g.W.Stopped() {
		cmp := Intent{T: "export_import", Op: "compare"}
		g.Out = append(g.Out, cmp)
		g.W.Exec(len(g.Out)-1, cmp)
	}
}

func (g *Gen) net() string {
	if g.R.Float64() >= g.FaultP {
		return ""
	}
	switch g.R.Intn(5) {
	case 0:
		return "drop"
	case 1:
		return "dup"
	case 2:
		return "front"
	default:
		return "delay" + strconv.Itoa(1+g.R.Intn(3))
	}
}

// netGas: like net(), and in some fault runs a transaction gas limit that is hit somewhere inside the execution.
func (g *Gen) netGas() string {
	if g.FaultP > 0 && g.R.Intn(12) == 0 {
		return "gas" + strconv.Itoa([]int{30000, 45000, 60000, 80000, 110000, 150000, 250000}[g.R.Intn(7)])
	}
	return g.net()
}

func (g *Gen) chain() string { return Chains[g.R.Intn(len(Chains))] }

func (g *Gen) token() TokenCfg { return g.W.Cfg.Tokens[g.R.Intn(len(g.W.Cfg.Tokens))] }

var amountShapes = []string{"1", "2", "3", "10", "999", "1000", "1001", "1000000", "999999999999", "1000000000000", "1000000000001", "1000000000000000000", "12345678901234567890"}

func (g *Gen) amount(max *big.Int) string {
	if g.R.Intn(3) == 0 {
		return amountShapes[g.R.Intn(len(amountShapes))]
	}
	if max.Sign() <= 0 {
		return "1"
	}
	v := new(big.Int).Rand(g.R, max)
	v.Add(v, big.NewInt(1))
	return v.String()
}

func (g *Gen) fee() string {
	if g.R.Intn(5) == 0 && bigOf(g.W.Cfg.UserFunds).BitLen() > 135 {
		// a fee beyond 2^128 (ordering by fee must not depend on a fixed narrower width)
		f := new(big.Int).Lsh(big.NewInt(1), uint(128+g.R.Intn(5)))
		return f.Add(f, big.NewInt(int64(g.R.Intn(1000)))).String()
	}
	switch g.R.Intn(6) {
	case 0:
		return "0"
	case 1:
		return "1"
	case 2:
		return "1000000000000"
	case 3:
		return "5000"
	default:
		return strconv.Itoa(g.R.Intn(1000000))
	}
}

// Step emits one (macro) action.
func (g *Gen) Step() {
	tot := 0
	keys := sortedI64Keys(toI64(g.Weights))
	for _, k := range keys {
		tot += g.Weights[k]
	}
	x := g.R.Intn(tot)
	var kind string
	for _, k := range keys {
		if x < g.Weights[k] {
			kind = k
			break
		}
		x -= g.Weights[k]
	}
	w := g.W
	switch kind {
	case "block":
		in := Intent{T: "block", Dt: 5, N: 1}
		if g.R.Intn(5) == 0 {
			in.Dt = 1 + g.R.Intn(30)
		}
		if g.R.Intn(6) == 0 {
			in.N = 2 + g.R.Intn(3)
		}
		if g.FaultP > 0 && g.R.Intn(12) == 0 && len(w.Vals) > 1 {
			in.Miss = []int{g.R.Intn(len(w.Vals))}
			in.N = 3 + g.R.Intn(6)
			w.St.Fault("validator_downtime")
		}
		g.emit(in)
	case "clock_jump":
		// land around the timeouts the configuration uses
		tgt := []uint64{w.Cfg.OutgoingTxTimeoutMs / 1000, w.Cfg.TargetEthTxTimeoutMs / 1000, uint64(w.Cfg.UnbondingSecs)}[g.R.Intn(3)]
		dt := int(tgt) + g.R.Intn(7) - 3
		if g.R.Intn(3) == 0 {
			dt = int(tgt)/2 + 1
		}
		if dt < 1 {
			dt = 1
		}
		w.St.Fault("clock_jump")
		g.emit(Intent{T: "block", Dt: dt, N: 1})
	case "user_send":
		t := g.token()
		u := g.R.Intn(len(w.Users))
		funds := bigOf(w.Cfg.UserFunds)
		max := new(big.Int).Quo(funds, big.NewInt(20))
		in := Intent{T: "user_send", U: u, Chain: t.Chain, Denom: t.Denom, Amt: g.amount(max), Fee: g.fee(), Net: g.netGas()}
		if g.R.Intn(3) == 0 {
			in.Dest = "u" + strconv.Itoa(g.R.Intn(len(w.Users)))
		}
		if g.R.Intn(20) == 0 {
			// an ordinary user pays into the chain's governance cold-storage address (any address is a valid recipient)
			in.Dest = ColdStorage[t.Chain]
			w.St.Probe("user-send-to-cold-storage-address")
		}
		if g.R.Intn(8) == 0 {
			in.N = 2 + g.R.Intn(2) // several withdrawals in one transaction
			w.St.Probe("multi-message-send")
		}
		if g.R.Intn(25) == 0 { // operation-level faults: unknown denom / chain, overdraft
			switch g.R.Intn(5) {
			case 0:
				in.Denom = "nosuch"
			case 1:
				in.Chain = "solana"
			case 2, 3:
				// a negative bridge fee smaller in magnitude than the amount (amount + fee stays positive)
				a := bigOf(in.Amt)
				if a.Sign() > 0 {
					in.Fee = "-" + new(big.Int).Add(new(big.Int).Quo(a, big.NewInt(int64(2+g.R.Intn(9)))), big.NewInt(0)).String()
					if in.Fee == "-0" {
						in.Fee = "-1"
					}
				}
			default:
				in.Amt = new(big.Int).Add(funds, big.NewInt(1)).String()
			}
			w.St.Fault("op_invalid_send")
		}
		g.emit(in)
	case "user_cancel":
		in := Intent{T: "user_cancel", U: g.R.Intn(len(w.Users)), Chain: g.chain(), Pick: g.R.Intn(8), Net: g.netGas(), Op: "own"}
		switch g.R.Intn(8) {
		case 0:
			in.Op = "" // somebody else's transfer
			w.St.Fault("op_cancel_foreign")
		case 1:
			in.As = "foreign0"
		case 2:
			in.ID = uint64(1 + g.R.Intn(40)) // arbitrary id: unknown, batched or already gone
		case 3:
			// the right id (and sender) under another chain's name, a truncated name or no name
			in.Chain2 = []string{"prefix", "prefix3", "empty", "ethereum", "bsc", "minter", "hub", "tron"}[g.R.Intn(8)]
		}
		g.emit(in)
	case "req_batch":
		t := g.token()
		in := Intent{T: "req_batch", U: g.R.Intn(len(w.Users)), Chain: t.Chain, Denom: t.Denom, Net: g.netGas()}
		if g.R.Intn(15) == 0 {
			in.Denom = "nosuch"
		}
		g.emit(in)
	case "ext_deposit":
		t := g.token()
		dests := []string{"hub", "hub", "ethereum", "bsc", "minter"}
		in := Intent{T: "ext_deposit", U: g.R.Intn(len(w.Users)), Chain: t.Chain, Denom: t.Denom, Chain2: dests[g.R.Intn(len(dests))]}
		if in.Chain2 == in.Chain {
			in.Chain2 = "hub"
		}
		if t.Chain == "minter" && in.Chain2 == "minter" {
			in.Chain2 = "hub"
		}
		max := new(big.Int).Mul(pow10(t.Decimals), big.NewInt(1000))
		in.Amt = g.amount(max)
		in.Fee = "0"
		if in.Chain2 != "hub" || g.R.Intn(4) == 0 {
			// a fee below the amount (the contract does not check, users choose)
			a := bigOf(in.Amt)
			f := new(big.Int).Quo(a, big.NewInt(int64(2+g.R.Intn(50))))
			in.Fee = f.String()
		}
		if g.R.Intn(3) == 0 {
			in.Dest = "u" + strconv.Itoa(g.R.Intn(len(w.Users)))
		}
		if t.Chain != "minter" && g.R.Intn(25) == 0 {
			// the contract accepts a deposit of nothing and numbers its event like any other: the hub has to get past it
			in.Amt, in.Fee = "0", "0"
			w.St.Probe("zero-amount-deposit")
		}
		if t.Chain == "minter" && (in.Chain2 == "ethereum" || in.Chain2 == "bsc") && g.R.Intn(2) == 0 {
			in.Op = []string{"bare", "0X", "lower"}[g.R.Intn(3)]
		}
		g.emit(in)
	case "poll_all":
		ch := g.chain()
		for v := range w.Vals {
			if g.R.Intn(10) == 0 {
				continue // this orchestrator is down / slow this round
			}
			if g.byzSet[v] && g.R.Intn(4) != 0 {
				continue // a Byzantine validator mostly withholds its honest claims (and lags behind)
			}
			g.emit(Intent{T: "orch_poll", V: v, Chain: ch, N: 1 + g.R.Intn(10), Net: g.net()})
		}
	case "orch_poll":
		in := Intent{T: "orch_poll", V: g.R.Intn(len(w.Vals)), Chain: g.chain(), N: 1 + g.R.Intn(10), Net: g.net()}
		switch g.R.Intn(10) {
		case 0:
			in.Skip = 1 + g.R.Intn(3)
		case 1:
			in.Op = "behind"
		case 2:
			in.As = "foreign0"
			w.St.Fault("claim_from_foreign_account")
		case 3:
			in.As = "oper"
		case 4:
			in.Mut = "then_fail"
		}
		g.emit(in)
	case "sign_all":
		ch := g.chain()
		for v := range w.Vals {
			if g.R.Intn(8) == 0 {
				continue
			}
			g.emit(Intent{T: "orch_sign", V: v, Chain: ch, Net: g.net()})
		}
	case "orch_sign":
		g.emit(Intent{T: "orch_sign", V: g.R.Intn(len(w.Vals)), Chain: g.chain(), Net: g.net(), N: 1 + g.R.Intn(10)})
	case "relay":
		in := Intent{T: "relay", Chain: g.chain(), Op: []string{"valset", "batch", "batch", "batch_stale"}[g.R.Intn(4)], Pick: g.R.Intn(6)}
		if g.R.Intn(4) == 0 {
			in.Mask = uint64(g.R.Intn(127) + 1)
		}
		if in.Op == "batch" || in.Op == "batch_stale" {
			in.Gas = []string{"0", "1", "21000000000000", "1000000000000000000", "100000000000000000000000"}[g.R.Intn(5)]
			in.U = g.R.Intn(len(w.Users) + 1)
		}
		g.emit(in)
	case "stall":
		ch := g.chain()
		if w.Stalled[ch] {
			g.emit(Intent{T: "stall", Chain: ch, Op: "off"})
		} else {
			g.emit(Intent{T: "stall", Chain: ch, Op: "on"})
		}
	case "ext_tick":
		g.emit(Intent{T: "ext_tick", Chain: g.chain(), N: []int{1, 5, 50, 500, 10000}[g.R.Intn(5)]})
	case "stake":
		ops := []string{"delegate", "undelegate", "undelegate", "create", "unjail"}
		in := Intent{T: "stake", Op: ops[g.R.Intn(len(ops))], V: g.R.Intn(len(w.Vals)), Pick: g.R.Intn(2), Net: g.net()}
		stake := w.Cfg.Stakes[in.V]
		switch g.R.Intn(4) {
		case 0:
			in.Amt = "1"
		case 1:
			in.Amt = strconv.FormatInt(1+stake/20, 10)
		case 2:
			in.Amt = strconv.FormatInt(1+stake/3, 10)
		default:
			in.Amt = strconv.FormatInt(stake, 10)
		}
		g.emit(in)
	case "holders_only":
		// every validator reports the same holder list and nobody reports prices (the two oracle results are
		// independent: one may exist without the other)
		hv := g.holderVals()
		for v := range w.Vals {
			g.emit(Intent{T: "oracle_claim", V: v, Op: "holders", Vals: hv})
		}
		g.emit(Intent{T: "block", Dt: 5, N: 6})
		w.St.Probe("holders-only-round")
	case "oracle_round":
		g.oracleRound()
	case "holders_split":
		g.holdersSplit()
	case "expiry_edge":
		// a transfer requested in an even block (so that the next, odd block does not batch it) meets a block whose
		// time is the first whole second after created + timeout - and one that is the last whole second before it
		t := g.token()
		if (w.N().Height+1)%2 == 1 {
			g.emit(Intent{T: "block", Dt: 5, N: 1})
		}
		funds := bigOf(w.Cfg.UserFunds)
		g.emit(Intent{T: "user_send", U: g.R.Intn(len(w.Users)), Chain: t.Chain, Denom: t.Denom, Amt: g.amount(new(big.Int).Quo(funds, big.NewInt(100))), Fee: g.fee()})
		g.emit(Intent{T: "block", Dt: 5, N: 1})
		secs := int((w.Cfg.OutgoingTxTimeoutMs + 999) / 1000)
		if w.Cfg.OutgoingTxTimeoutMs%1000 == 0 {
			secs++ // expiry is strict: exactly at created + timeout nothing is due yet
		}
		if g.R.Intn(3) == 0 {
			secs-- // the last block before the deadline: nothing may expire
		}
		g.emit(Intent{T: "block", Dt: secs, N: 1})
		g.emit(Intent{T: "block", Dt: 5, N: 1})
		w.St.Probe("expiry-edge-scenario")
	case "overflow_refund":
		g.overflowRefund()
	case "phantom_orch":
		// a registration naming a funded stranger as orchestrator is rolled back with its transaction; the stranger
		// then reports events, and a validator's claims in a failed transaction are followed by its real ones
		v := g.R.Intn(len(w.Vals))
		t := g.token()
		g.emit(Intent{T: "ext_deposit", U: g.R.Intn(len(w.Users)), Chain: t.Chain, Chain2: "hub", Denom: t.Denom, Amt: g.amount(big.NewInt(1000000)), Fee: "0"})
		g.emit(Intent{T: "set_keys", V: v, Chain: t.Chain, Op: "poison_orch", Pick: g.R.Intn(50)})
		g.emit(Intent{T: "block", Dt: 5, N: 1})
		g.emit(Intent{T: "orch_poll", V: v, Chain: t.Chain, N: 1 + g.R.Intn(3), As: "foreign1"})
		g.emit(Intent{T: "orch_poll", V: (v + 1) % len(w.Vals), Chain: t.Chain, N: 2, Mut: "then_fail"})
		g.emit(Intent{T: "block", Dt: 5, N: 1})
		g.emit(Intent{T: "orch_poll", V: (v + 1) % len(w.Vals), Chain: t.Chain, N: 10})
		g.emit(Intent{T: "block", Dt: 5, N: 1})
		w.St.Probe("phantom-orchestrator-scenario")
	case "oracle_claim":
		g.oracleClaim(g.R.Intn(len(w.Vals)))
	case "byz_claim":
		// keep Byzantine power below one third: at most one validator, and only if its stake share is < 1/3
		v := g.R.Intn(len(w.Vals))
		var tot int64
		for _, s := range w.Cfg.Stakes {
			tot += s
		}
		if len(g.byzSet) == 0 && w.Cfg.Stakes[v]*3 < tot {
			g.byzSet[v] = true
		}
		if g.byzSet[v] {
			ch := g.chain()
			n := 1
			if g.Profile == "C14" {
				n = 1 + g.R.Intn(4) // walk several nonces: the Byzantine cursor only moves through its own claims
			}
			for i := 0; i < n; i++ {
				g.emit(Intent{T: "byz_claim", V: v, Chain: ch, Pick: g.R.Intn(16), Net: ""})
			}
		}
	case "rotate_reclaim":
		// a validator reports a fresh event, registers new delegate keys, and its (old) orchestrator reports again
		v := g.R.Intn(len(w.Vals))
		t := g.token()
		g.emit(Intent{T: "orch_poll", V: v, Chain: t.Chain, N: 10})
		g.emit(Intent{T: "block", Dt: 5, N: 1})
		g.emit(Intent{T: "ext_deposit", U: g.R.Intn(len(w.Users)), Chain: t.Chain, Chain2: "hub", Denom: t.Denom, Amt: g.amount(big.NewInt(1000000)), Fee: "0"})
		g.emit(Intent{T: "orch_poll", V: v, Chain: t.Chain, N: 10})
		g.emit(Intent{T: "block", Dt: 5, N: 1})
		g.emit(Intent{T: "set_keys", V: v, Chain: t.Chain, Op: "fresh", Pick: g.R.Intn(50)})
		g.emit(Intent{T: "block", Dt: 5, N: 1})
		g.emit(Intent{T: "orch_poll", V: v, Chain: t.Chain, N: 10})
		g.emit(Intent{T: "block", Dt: 5, N: 1})
		w.St.Probe("rotate-reclaim-scenario")
	case "val_recreate":
		// a validator votes on a fresh event nobody else has reported yet, leaves staking completely, is
		// created again under the same operator address and reports again
		if len(w.Vals) < 3 {
			break
		}
		v := g.R.Intn(len(w.Vals))
		var tot int64
		for _, s := range w.Cfg.Stakes {
			tot += s
		}
		if w.Cfg.Stakes[v]*3 >= tot {
			break
		}
		t := g.token()
		g.emit(Intent{T: "orch_poll", V: v, Chain: t.Chain, N: 10})
		g.emit(Intent{T: "block", Dt: 5, N: 1})
		g.emit(Intent{T: "ext_deposit", U: g.R.Intn(len(w.Users)), Chain: t.Chain, Chain2: "hub", Denom: t.Denom, Amt: g.amount(big.NewInt(1000000)), Fee: "0"})
		g.emit(Intent{T: "orch_poll", V: v, Chain: t.Chain, N: 10})
		g.emit(Intent{T: "block", Dt: 5, N: 1})
		g.emit(Intent{T: "stake", V: v, Op: "undelegate", Amt: strconv.FormatInt(w.Cfg.Stakes[v], 10)})
		g.emit(Intent{T: "block", Dt: 5, N: 1})
		g.emit(Intent{T: "block", Dt: int(w.Cfg.UnbondingSecs) + 10, N: 2})
		g.emit(Intent{T: "stake", V: v, Op: "recreate", Amt: strconv.FormatInt(w.Cfg.Stakes[v], 10)})
		g.emit(Intent{T: "block", Dt: 5, N: 2})
		g.emit(Intent{T: "orch_poll", V: v, Chain: t.Chain, N: 10})
		g.emit(Intent{T: "block", Dt: 5, N: 1})
		w.St.Probe("validator-recreate-scenario")
	case "val_removed_steal":
		// a validator leaves staking completely (its record is removed once the unbonding period is over) while its
		// delegate keys stay in the registry; another validator then tries to register the leaver's external key,
		// signed with that very key; finally the leaver comes back under its operator address
		if len(w.Vals) < 3 {
			break
		}
		{
			v := g.R.Intn(len(w.Vals))
			var tot int64
			for _, s := range w.Cfg.Stakes {
				tot += s
			}
			if w.Cfg.Stakes[v]*3 >= tot {
				break
			}
			v2 := (v + 1 + g.R.Intn(len(w.Vals)-1)) % len(w.Vals)
			ch := g.chain()
			g.emit(Intent{T: "stake", V: v, Op: "undelegate", Amt: strconv.FormatInt(w.Cfg.Stakes[v], 10)})
			g.emit(Intent{T: "block", Dt: 5, N: 1})
			g.emit(Intent{T: "block", Dt: int(w.Cfg.UnbondingSecs) + 10, N: 2})
			g.emit(Intent{T: "set_keys", V: v2, Chain: ch, Op: "steal_ext_key", Pick: v})
			g.emit(Intent{T: "block", Dt: 5, N: 1})
			if g.R.Intn(2) == 0 {
				g.emit(Intent{T: "stake", V: v, Op: "recreate", Amt: strconv.FormatInt(w.Cfg.Stakes[v], 10)})
				g.emit(Intent{T: "block", Dt: 5, N: 2})
			}
			for i := range w.Vals {
				g.emit(Intent{T: "orch_poll", V: i, Chain: ch, N: 10})
			}
			g.emit(Intent{T: "block", Dt: 5, N: 1})
			w.St.Probe("validator-removed-steal-scenario")
		}
	case "prefix_mix":
		// two Minter coins whose ids are prefix-related ("1" and "1902") have transfers waiting at the same time; the
		// shorter coin's transfer pays the highest fee, the longer coin's is large (so is its commission); the batches are
		// built, signed, executed and observed
		{
			var a, b *TokenCfg
			for i := range w.Cfg.Tokens {
				for j := range w.Cfg.Tokens {
					x, y := &w.Cfg.Tokens[i], &w.Cfg.Tokens[j]
					if x.Chain == "minter" && y.Chain == "minter" && x.ExtID != y.ExtID && strings.HasPrefix(y.ExtID, x.ExtID) {
						a, b = x, y
					}
				}
			}
			if a == nil {
				break
			}
			funds := bigOf(w.Cfg.UserFunds)
			u := g.R.Intn(len(w.Users))
			g.emit(Intent{T: "user_send", U: u, Chain: "minter", Denom: b.Denom, Amt: g.amount(new(big.Int).Quo(funds, big.NewInt(20))), Fee: []string{"0", "1", g.fee()}[g.R.Intn(3)]})
			g.emit(Intent{T: "user_send", U: g.R.Intn(len(w.Users)), Chain: "minter", Denom: a.Denom, Amt: g.amount(new(big.Int).Quo(funds, big.NewInt(2000))), Fee: []string{"2", "1000", g.fee()}[g.R.Intn(3)]})
			g.emit(Intent{T: "block", Dt: 5, N: 1})
			if g.R.Intn(2) == 0 {
				g.emit(Intent{T: "req_batch", U: u, Chain: "minter", Denom: a.Denom})
			}
			g.emit(Intent{T: "block", Dt: 5, N: 2})
			for k := 0; k < 2; k++ {
				for v := range w.Vals {
					g.emit(Intent{T: "orch_sign", V: v, Chain: "minter"})
				}
				g.emit(Intent{T: "block", Dt: 5, N: 1})
			}
			for i := 0; i < 3; i++ {
				g.emit(Intent{T: "relay", Chain: "minter", Op: "batch", Pick: g.R.Intn(8), Gas: "0", U: g.R.Intn(3)})
			}
			for k := 0; k < 2; k++ {
				for v := range w.Vals {
					g.emit(Intent{T: "orch_poll", V: v, Chain: "minter", N: 10})
				}
				g.emit(Intent{T: "block", Dt: 5, N: 1})
			}
			w.St.Probe("prefix-mix-scenario")
		}
	case "orch_release_steal":
		// a validator rotates its keys away and back, which releases its first orchestrator account; another
		// validator then registers that account, and the account keeps sending claims
		if len(w.Vals) < 2 {
			break
		}
		v1 := g.R.Intn(len(w.Vals))
		v2 := (v1 + 1 + g.R.Intn(len(w.Vals)-1)) % len(w.Vals)
		ch := g.chain()
		g.emit(Intent{T: "set_keys", V: v1, Chain: ch, Op: "fresh", Pick: g.R.Intn(len(w.Vals))})
		g.emit(Intent{T: "block", Dt: 5, N: 1})
		g.emit(Intent{T: "set_keys", V: v1, Chain: ch, Op: "back_to_first", Pick: g.R.Intn(len(w.Vals))})
		g.emit(Intent{T: "block", Dt: 5, N: 1})
		g.emit(Intent{T: "set_keys", V: v2, Chain: ch, Op: "steal_first_orch", Pick: v1})
		g.emit(Intent{T: "block", Dt: 5, N: 1})
		g.emit(Intent{T: "orch_poll", V: v1, Chain: ch, N: 3})
		g.emit(Intent{T: "orch_sign", V: v1, Chain: ch, N: 3})
		g.emit(Intent{T: "block", Dt: 5, N: 1})
		w.St.Probe("orch-release-steal-scenario")
	case "byz_first":
		// a validator that kept up honestly so far reports the NEWEST event first, wrong in one field, and the
		// honest majority reports the true event right after it
		v := g.R.Intn(len(w.Vals))
		var tot int64
		for _, s := range w.Cfg.Stakes {
			tot += s
		}
		if len(g.byzSet) == 0 && w.Cfg.Stakes[v]*3 < tot {
			g.byzSet[v] = true
		}
		if !g.byzSet[v] {
			break
		}
		t := g.token()
		ch := t.Chain
		g.emit(Intent{T: "orch_poll", V: v, Chain: ch, N: 10})
		g.emit(Intent{T: "block", Dt: 5, N: 1})
		switch g.R.Intn(4) {
		case 0:
			g.emit(Intent{T: "relay", Chain: ch, Op: "valset", Pick: g.R.Intn(4)})
		case 1:
			g.emit(Intent{T: "relay", Chain: ch, Op: "batch", Pick: g.R.Intn(8), Gas: "1000"})
		default:
			g.emit(Intent{T: "ext_deposit", U: g.R.Intn(len(w.Users)), Chain: ch, Chain2: "hub", Denom: t.Denom, Amt: g.amount(big.NewInt(1000000)), Fee: "0"})
		}
		muts := []string{"height_hi", "height_hi", "height_hi", "member_case", "member_case", "tx_hash", "fee_payer", "member_power_hi", "amount", "receiver", "sender", "batch_nonce_hi", "set_nonce_hi", "fee", "coin"}
		g.emit(Intent{T: "byz_claim", V: v, Chain: ch, Mut: muts[g.R.Intn(len(muts))], Net: "front"})
		for o := range w.Vals {
			if o != v {
				g.emit(Intent{T: "orch_poll", V: o, Chain: ch, N: 10})
			}
		}
		g.emit(Intent{T: "block", Dt: 5, N: 2})
		w.St.Probe("byz-first-scenario")
	case "node_restart":
		if g.FaultP > 0 {
			if g.R.Intn(2) == 0 {
				g.emit(Intent{T: "node_restart", Pick: g.R.Intn(4), Op: "mid", N: g.R.Intn(12)})
			} else {
				g.emit(Intent{T: "node_restart", Pick: g.R.Intn(4)})
			}
		}
	case "confirm_fuzz":
		muts := []string{"", "", "", "", "unknown", "wrong_token", "wrong_chain", "other_signer", "garbage", "short_sig", "foreign"}
		in := Intent{T: "confirm_fuzz", V: g.R.Intn(len(w.Vals)), Chain: g.chain(), Op: []string{"ss", "batch"}[g.R.Intn(2)], Pick: g.R.Intn(6), Mut: muts[g.R.Intn(len(muts))], Net: g.net()}
		if g.R.Intn(5) == 0 {
			in.As = "oper"
		}
		g.emit(in)
	case "set_keys":
		ops := []string{"", "", "fresh", "fresh", "xchain", "xchain", "steal_ext", "steal_ext_key", "steal_ext_key", "steal_orch", "stale", "future", "wrong_key", "replay", "unknown_val", "other_signer", "rotate_orch", "rotate_orch_badsig", "share_orch", "share_orch", "self_orch", "back_to_first", "orch_other_val", "orch_other_val"}
		chains := append(append([]string{}, Chains...), "tron")
		in := Intent{T: "set_keys", V: g.R.Intn(len(w.Vals)), Chain: chains[g.R.Intn(len(chains))], Op: ops[g.R.Intn(len(ops))], Pick: g.R.Intn(len(w.Vals)), Net: g.net()}
		if g.R.Intn(8) == 0 {
			in.V = 100 + g.R.Intn(2)
		}
		if g.R.Intn(4) == 0 {
			// the same accounts and keys in another admissible spelling (upper-case bech32, other hex case)
			in.Mut = []string{"orch_upper", "orch_upper", "val_upper", "ext_lower", "ext_upper"}[g.R.Intn(5)]
		}
		if g.Profile != "C17" || g.R.Intn(6) == 0 {
			if g.Profile != "C17" {
				in.Op = []string{"fresh", "fresh", "rotate_orch", "xchain"}[g.R.Intn(4)]
			}
			if g.R.Intn(2) == 0 {
				in.Mut = "then_fail"
			}
		}
		g.emit(in)
	case "export_import":
		g.emit(Intent{T: "export_import", Op: []string{"", "compare", "compare"}[g.R.Intn(3)]})
	case "adv_event":
		g.advEvent()
	case "size_burst":
		if g.R.Intn(2) == 0 {
			g.sizeBurstMulti()
		} else {
			g.sizeBurst()
		}
	case "batch_race":
		g.batchRace()
	case "xchain_expire":
		g.xchainExpire()
	case "valset_lag":
		g.valsetLag()
	case "timeout_inversion":
		g.timeoutInversion()
	case "batch_backlog":
		if g.R.Intn(8) == 0 && !g.backlogDone {
			g.backlogDone = true
			g.batchBacklog()
		}
	case "gov":
		// a proposal, yes votes of every validator, then the voting period passes
		t := g.token()
		if g.Profile == "C15" && g.R.Intn(4) == 0 {
			// the served chains change (an empty list pauses the bridge); the parameter must survive a restart as it is
			g.emit(Intent{T: "gov", Op: "param_chains", V: g.R.Intn(len(w.Vals)), Amt: []string{`[]`, `["ethereum","minter","hub"]`, `["minter","hub"]`, `["ethereum","bsc","minter","hub"]`}[g.R.Intn(4)]})
			g.emit(Intent{T: "block", Dt: 5, N: 1})
			g.emit(Intent{T: "gov", Op: "vote"})
			g.emit(Intent{T: "block", Dt: 5, N: 1})
			g.emit(Intent{T: "block", Dt: 25, N: 1})
			break
		}
		if (g.Profile == "C06" || g.Profile == "C05") && g.R.Intn(3) == 0 {
			// only where nothing depends on the configured timeout: a parameter change
			g.emit(Intent{T: "gov", Op: "param", V: g.R.Intn(len(w.Vals)), Amt: []string{"60000", "600000", "5000", "86400000"}[g.R.Intn(4)]})
			g.emit(Intent{T: "block", Dt: 5, N: 1})
			g.emit(Intent{T: "gov", Op: "vote"})
			g.emit(Intent{T: "block", Dt: 5, N: 1})
			g.emit(Intent{T: "block", Dt: 25, N: 1})
			break
		}
		c05 := g.Profile == "C05" || g.Profile == "C05adv" || g.Profile == "C05size"
		if ((c05 || g.Profile == "C06") && g.R.Intn(4) == 0) || ((g.Profile == "C10" || g.Profile == "C12") && g.R.Intn(2) == 0) {
			// a listed token is re-listed with other external decimals, with its contract address in another spelling,
			// or under another hub id while transfers of it may be pending (only where no oracle depends on the
			// amounts such a change re-interprets: block processing must survive it and stay deterministic; for C10,
			// renumbering only - batches are selected by chain and external id)
			mut := []string{"decimals", "respell", "renumber"}[g.R.Intn(3)]
			if g.Profile == "C10" {
				mut = "renumber"
			}
			if g.Profile == "C12" {
				mut = "respell" // the same contract, the same hub id and decimals: what is owed to a sender does not change
			}
			g.emit(Intent{T: "gov", Op: "relist", Mut: mut, V: g.R.Intn(len(w.Vals)), Pick: g.R.Intn(9)})
			g.emit(Intent{T: "block", Dt: 5, N: 1})
			g.emit(Intent{T: "gov", Op: "vote"})
			g.emit(Intent{T: "block", Dt: 5, N: 1})
			g.emit(Intent{T: "block", Dt: 25, N: 1})
			break
		}
		if (c05 && g.R.Intn(2) == 0) || ((g.Profile == "C01" || g.Profile == "C04" || g.Profile == "C13" || g.Profile == "C11" || os.Getenv("MHUBSIM_DELIST") != "") && g.R.Intn(4) == 0) {
			// a token leaves the list while transfers of it are pending (refunds to its chain can no longer be created)
			g.emit(Intent{T: "gov", Op: "delist", V: g.R.Intn(len(w.Vals)), Pick: g.R.Intn(9)})
		} else if g.R.Intn(2) == 0 {
			in := Intent{T: "gov", Op: "cold", V: g.R.Intn(len(w.Vals)), Chain: t.Chain, Denom: t.Denom, Amt: g.amount(new(big.Int).Quo(bigOf(w.Cfg.UserFunds), big.NewInt(10)))}
			if ds := w.Cfg.Denoms(); len(ds) > 1 && g.R.Intn(3) == 0 {
				// a second coin; its denom may not be bridged to that chain at all
				in.Vals = []string{ds[g.R.Intn(len(ds))] + ":" + g.amount(new(big.Int).Quo(bigOf(w.Cfg.UserFunds), big.NewInt(10)))}
			}
			g.emit(in)
		} else {
			g.emit(Intent{T: "gov", Op: "commission", V: g.R.Intn(len(w.Vals)), Pick: g.R.Intn(9), Amt: commChoices[g.R.Intn(len(commChoices))]})
		}
		g.emit(Intent{T: "block", Dt: 5, N: 1})
		g.emit(Intent{T: "gov", Op: "vote"})
		g.emit(Intent{T: "block", Dt: 5, N: 1})
		g.emit(Intent{T: "block", Dt: 25, N: 1})
	case "huge_fees":
		g.hugeFees()
	case "cancel_pair":
		// several withdrawals in one transaction, then their sender cancels them one after the other
		t := g.token()
		u := g.R.Intn(len(w.Users))
		funds := bigOf(w.Cfg.UserFunds)
		g.emit(Intent{T: "user_send", U: u, Chain: t.Chain, Denom: t.Denom, Amt: g.amount(new(big.Int).Quo(funds, big.NewInt(100))), Fee: g.fee(), N: 2 + g.R.Intn(2)})
		g.emit(Intent{T: "block", Dt: 5, N: 1})
		for i := 0; i < 3; i++ {
			g.emit(Intent{T: "user_cancel", U: u, Chain: t.Chain, Op: "own", Pick: 0})
			if g.R.Intn(2) == 0 {
				g.emit(Intent{T: "block", Dt: 5, N: 1})
			}
		}
		g.emit(Intent{T: "block", Dt: 5, N: 1})
	}
}

// batchRace drives one chain into the states the batch properties are about: several tokens with several
// pending batches each, confirmed, then executed in an arbitrary order (newest first, a middle one, …).
// overflowRefund: two transfers of one 18-decimals token expire in the same EndBlock right after a deposit that
// fills the denomination's supply so far that re-minting the dearer one would pass 2^256-1 (that refund fails on its
// own and is retried), while the cheaper one still fits and must be refunded in that very block.
func (g *Gen) overflowRefund() {
	w := g.W
	var t *TokenCfg
	for i := range w.Cfg.Tokens {
		if x := &w.Cfg.Tokens[i]; x.Decimals == 18 && x.Chain != "minter" {
			t = x
			break
		}
	}
	if t == nil || len(w.Users) < 2 || bigOf(w.Cfg.UserFunds).Cmp(big.NewInt(100000)) < 0 {
		return
	}
	for v := range w.Vals {
		g.emit(Intent{T: "orch_poll", V: v, Chain: t.Chain, N: 10})
	}
	g.emit(Intent{T: "block", Dt: 5, N: 1})
	if (w.N().Height+1)%2 == 1 {
		g.emit(Intent{T: "block", Dt: 5, N: 1})
	}
	// requested in an even block: the next (odd) block does not batch them
	g.emit(Intent{T: "user_send", U: 0, Chain: t.Chain, Denom: t.Denom, Amt: "50000", Fee: "9"})
	g.emit(Intent{T: "user_send", U: 1, Chain: t.Chain, Denom: t.Denom, Amt: "3000", Fee: "2"})
	g.emit(Intent{T: "block", Dt: 5, N: 1})
	var small *big.Int
	n := 0
	for _, e := range w.ReadState().Pool(t.Chain) {
		if e.Token.ExternalTokenId != t.ExtID {
			continue
		}
		n++
		tot := entryTotal(e)
		if small == nil || tot.Cmp(small) < 0 {
			small = tot
		}
	}
	if n < 2 || small == nil {
		return
	}
	// after the deposit: supply + small == 2^256-1 exactly, so only the cheaper refund fits
	max := new(big.Int).Sub(new(big.Int).Lsh(big.NewInt(1), 256), big.NewInt(1))
	d := new(big.Int).Sub(max, w.ReadState().Supply(t.Denom).BigInt())
	d.Sub(d, small)
	if d.Sign() <= 0 || d.BitLen() > 256 {
		return
	}
	w.St.Probe("overflow-refund-scenario")
	g.emit(Intent{T: "ext_deposit", U: 2 % len(w.Users), Chain: t.Chain, Chain2: "hub", Denom: t.Denom, Amt: d.String(), Fee: "0"})
	for v := range w.Vals {
		g.emit(Intent{T: "orch_poll", V: v, Chain: t.Chain, N: 10})
	}
	g.emit(Intent{T: "block", Dt: int(w.Cfg.OutgoingTxTimeoutMs/1000) + 2, N: 1})
	g.emit(Intent{T: "block", Dt: 5, N: 2})
}

// batchBacklog: more than a hundred Minter batches (they never time out) pile up unsigned by validator 0 while the
// others sign now and then: the relayer-facing lists must stay complete however long they get.
func (g *Gen) batchBacklog() {
	w := g.W
	var t *TokenCfg
	for i := range w.Cfg.Tokens {
		if w.Cfg.Tokens[i].Chain == "minter" {
			t = &w.Cfg.Tokens[i]
			break
		}
	}
	if t == nil {
		return
	}
	w.St.Probe("batch-backlog-scenario")
	n := 101 + g.R.Intn(5)
	for i := 0; i < n && !w.Stopped(); i++ {
		g.emit(Intent{T: "user_send", U: i % len(w.Users), Chain: "minter", Denom: t.Denom, Amt: "1000", Fee: strconv.Itoa(i % 7)})
		g.emit(Intent{T: "block", Dt: 5, N: 2})
		if i%30 == 29 && len(w.Vals) > 1 {
			g.emit(Intent{T: "orch_sign", V: 1 + g.R.Intn(len(w.Vals)-1), Chain: "minter"})
		}
	}
	if len(w.ReadState().Batches("minter")) > 100 {
		w.St.Probe("more-than-100-pending-batches")
	}
	g.emit(Intent{T: "block", Dt: 5, N: 1})
}

// timeoutInversion: the external chain stands still while the hub goes on (the hub's projection of the external height
// runs ahead), a batch is built with a timeout from that projection; then the chain's real, lower height is
// observed and a second batch of the same token gets an EARLIER timeout than the first. The chain then moves past
// the newer batch's timeout only: the older batch is still executable.
func (g *Gen) timeoutInversion() {
	w := g.W
	ch := []string{"ethereum", "bsc"}[g.R.Intn(2)]
	var toks []TokenCfg
	for _, t := range w.Cfg.Tokens {
		if t.Chain == ch {
			toks = append(toks, t)
		}
	}
	if len(toks) == 0 || w.Eth[ch] == nil {
		return
	}
	t := toks[g.R.Intn(len(toks))]
	w.St.Probe("timeout-inversion-scenario")
	pollAll := func() {
		for v := range w.Vals {
			g.emit(Intent{T: "orch_poll", V: v, Chain: ch, N: 10})
		}
		g.emit(Intent{T: "block", Dt: 5, N: 1})
	}
	pollAll()
	if !w.Stalled[ch] {
		g.emit(Intent{T: "stall", Chain: ch, Op: "on"})
	}
	g.emit(Intent{T: "block", Dt: 5, N: 6 + g.R.Intn(20)})
	max := new(big.Int).Quo(bigOf(w.Cfg.UserFunds), big.NewInt(200))
	g.emit(Intent{T: "user_send", U: g.R.Intn(len(w.Users)), Chain: ch, Denom: t.Denom, Amt: g.amount(max), Fee: g.fee()})
	g.emit(Intent{T: "block", Dt: 5, N: 2})
	// the real (low) height becomes known to the hub
	g.emit(Intent{T: "ext_deposit", U: g.R.Intn(len(w.Users)), Chain: ch, Chain2: "hub", Denom: t.Denom, Amt: g.amount(new(big.Int).Mul(pow10(t.Decimals), big.NewInt(10))), Fee: "0"})
	pollAll()
	g.emit(Intent{T: "user_send", U: g.R.Intn(len(w.Users)), Chain: ch, Denom: t.Denom, Amt: g.amount(max), Fee: g.fee()})
	g.emit(Intent{T: "block", Dt: 5, N: 2})
	// move the chain just past the earliest timeout among this token's pending batches
	var lo, hi uint64
	for _, b := range w.ReadState().Batches(ch) {
		if b.ExternalTokenId != t.ExtID {
			continue
		}
		if lo == 0 || b.Timeout < lo {
			lo = b.Timeout
		}
		if b.Timeout > hi {
			hi = b.Timeout
		}
	}
	if lo > 0 && hi > lo+1 {
		w.St.Probe("older-batch-with-later-timeout")
	}
	if lo >= w.Eth[ch].Height {
		g.emit(Intent{T: "ext_tick", Chain: ch, N: int(lo-w.Eth[ch].Height) + 1})
	}
	g.emit(Intent{T: "ext_deposit", U: g.R.Intn(len(w.Users)), Chain: ch, Chain2: "hub", Denom: t.Denom, Amt: g.amount(new(big.Int).Mul(pow10(t.Decimals), big.NewInt(10))), Fee: "0"})
	pollAll()
	g.emit(Intent{T: "block", Dt: 5, N: 2})
	g.emit(Intent{T: "stall", Chain: ch, Op: "off"})
}

// valsetLag: the relayers are away while the bonded power moves by more than 5 % two or three times: several signer-set
// updates are pending (and confirmed) at once and grow older than the signed-signer-sets window before anybody
// relays them; then the relayers come back.
func (g *Gen) valsetLag() {
	w := g.W
	w.St.Probe("valset-lag-scenario")
	var tot int64
	for _, s := range w.Cfg.Stakes {
		tot += s
	}
	rounds := 2 + g.R.Intn(2)
	for r := 0; r < rounds && !w.Stopped(); r++ {
		v := g.R.Intn(len(w.Vals))
		in := Intent{T: "stake", V: v}
		if g.R.Intn(2) == 0 {
			in.Op = "delegate"
			a := tot/8 + 1
			if a > 900 {
				a = 900 // a validator account holds 1000 power units of liquid stake
			}
			in.Amt = strconv.FormatInt(a, 10)
		} else {
			in.Op = "undelegate"
			in.Amt = strconv.FormatInt(w.Cfg.Stakes[v]/3+1, 10)
		}
		g.emit(in)
		g.emit(Intent{T: "block", Dt: 5, N: 2})
		for _, ch := range Chains {
			for vv := range w.Vals {
				if g.R.Intn(6) != 0 {
					g.emit(Intent{T: "orch_sign", V: vv, Chain: ch})
				}
			}
		}
		g.emit(Intent{T: "block", Dt: 5, N: 1})
	}
	wait := 3
	if w.Cfg.SignerSetWindow > 0 && w.Cfg.SignerSetWindow < 20 {
		wait = int(w.Cfg.SignerSetWindow) + 2
	}
	g.emit(Intent{T: "block", Dt: 5, N: wait})
	for k := 0; k < 3; k++ {
		for _, ch := range Chains {
			g.emit(Intent{T: "relay", Chain: ch, Op: "valset", Pick: g.R.Intn(3)})
		}
		for _, ch := range Chains {
			for vv := range w.Vals {
				g.emit(Intent{T: "orch_poll", V: vv, Chain: ch, N: 10})
			}
		}
		g.emit(Intent{T: "block", Dt: 5, N: 1})
	}
}

// xchainExpire: several deposits on one external chain destined for ANOTHER external chain are observed in one hub
// block of even height; the next block (odd height: no automatic batching) comes after the outgoing-transfer
// timeout, so all of them expire in one EndBlock and each is refunded by a new transfer towards its origin chain.
func (g *Gen) xchainExpire() {
	w := g.W
	type pair struct {
		t TokenCfg
		d string
	}
	var ps []pair
	for _, t := range w.Cfg.Tokens {
		for _, d := range Chains {
			if d != t.Chain && w.Cfg.Token(d, t.Denom) != nil {
				ps = append(ps, pair{t, d})
			}
		}
	}
	if len(ps) == 0 {
		return
	}
	p := ps[g.R.Intn(len(ps))]
	w.St.Probe("xchain-expire-scenario")
	for v := range w.Vals {
		g.emit(Intent{T: "orch_poll", V: v, Chain: p.t.Chain, N: 10})
	}
	g.emit(Intent{T: "block", Dt: 5, N: 1})
	k := 2 + g.R.Intn(5)
	max := new(big.Int).Mul(pow10(p.t.Decimals), big.NewInt(1000))
	for i := 0; i < k; i++ {
		a := bigOf(g.amount(max))
		f := new(big.Int).Quo(a, big.NewInt(int64(3+g.R.Intn(40))))
		g.emit(Intent{T: "ext_deposit", U: (i + g.R.Intn(2)) % len(w.Users), Chain: p.t.Chain, Chain2: p.d, Denom: p.t.Denom, Amt: a.String(), Fee: f.String(), Dest: "u" + strconv.Itoa(g.R.Intn(len(w.Users)))})
	}
	if p.t.Chain == "minter" {
		g.emit(Intent{T: "ext_tick", Chain: p.t.Chain, N: 1})
	}
	if (w.N().Height+1)%2 == 1 {
		g.emit(Intent{T: "block", Dt: 5, N: 1})
	}
	for v := range w.Vals {
		g.emit(Intent{T: "orch_poll", V: v, Chain: p.t.Chain, N: 10})
	}
	g.emit(Intent{T: "block", Dt: 5, N: 1})
	g.emit(Intent{T: "block", Dt: int(w.Cfg.OutgoingTxTimeoutMs/1000) + 2, N: 1})
	g.emit(Intent{T: "block", Dt: 5, N: 2})
}

func (g *Gen) batchRace() {
	w := g.W
	ch := []string{"ethereum", "bsc", "ethereum", "bsc", "minter"}[g.R.Intn(5)]
	var toks []TokenCfg
	for _, t := range w.Cfg.Tokens {
		if t.Chain == ch {
			toks = append(toks, t)
		}
	}
	if len(toks) == 0 {
		return
	}
	w.St.Probe("batch-race-scenario")
	// the chain's first event must be observed, otherwise batches are born with timeout 0
	for v := range w.Vals {
		g.emit(Intent{T: "orch_poll", V: v, Chain: ch, N: 10})
	}
	g.emit(Intent{T: "block", Dt: 5, N: 1})
	funds := bigOf(w.Cfg.UserFunds)
	max := new(big.Int).Quo(funds, big.NewInt(200))
	rounds := 2 + g.R.Intn(2)
	for r := 0; r < rounds && !w.Stopped(); r++ {
		for _, t := range toks {
			if g.R.Intn(4) == 0 && r > 0 {
				continue
			}
			for k := 1 + g.R.Intn(3); k > 0; k-- {
				g.emit(Intent{T: "user_send", U: g.R.Intn(len(w.Users)), Chain: ch, Denom: t.Denom, Amt: g.amount(max), Fee: g.fee(), Net: g.net()})
			}
		}
		g.emit(Intent{T: "block", Dt: 5, N: 2})
		if g.R.Intn(3) == 0 {
			t := toks[g.R.Intn(len(toks))]
			g.emit(Intent{T: "req_batch", U: g.R.Intn(len(w.Users)), Chain: ch, Denom: t.Denom})
		}
	}
	for k := 0; k < 2; k++ {
		for v := range w.Vals {
			g.emit(Intent{T: "orch_sign", V: v, Chain: ch})
		}
		g.emit(Intent{T: "block", Dt: 5, N: 1})
	}
	if g.R.Intn(3) == 0 {
		g.emit(Intent{T: "relay", Chain: ch, Op: "valset", Pick: 0})
	}
	n := 1 + g.R.Intn(3)
	for i := 0; i < n; i++ {
		// newest first more often than not
		pick := 7 - g.R.Intn(3)
		if g.R.Intn(3) == 0 {
			pick = g.R.Intn(8)
		}
		g.emit(Intent{T: "relay", Chain: ch, Op: "batch", Pick: pick, Gas: []string{"0", "1000", "21000000000000"}[g.R.Intn(3)], U: g.R.Intn(3)})
	}
	for k := 0; k < 2; k++ {
		for v := range w.Vals {
			g.emit(Intent{T: "orch_poll", V: v, Chain: ch, N: 10, Net: g.net()})
		}
		g.emit(Intent{T: "block", Dt: 5, N: 1})
	}
	// relayers that kept older confirmed batches try them now
	for i := g.R.Intn(3); i > 0; i-- {
		g.emit(Intent{T: "relay", Chain: ch, Op: "batch_stale", Pick: g.R.Intn(8), Gas: "1000"})
	}
	if g.R.Intn(2) == 0 {
		for v := range w.Vals {
			g.emit(Intent{T: "orch_poll", V: v, Chain: ch, N: 10})
		}
		g.emit(Intent{T: "block", Dt: 5, N: 1})
	}
}

func toI64(m map[string]int) map[string]int64 {
	o := map[string]int64{}
	for k, v := range m {
		o[k] = int64(v)
	}
	return o
}

func (g *Gen) priceVals() []string {
	n := 4 + len(g.W.Cfg.Denoms())
	var out []string
	for i := 0; i < n; i++ {
		switch g.R.Intn(8) {
		case 0:
			out = append(out, "0.000000000001")
		case 1:
			out = append(out, "1000000000")
		default:
			out = append(out, fmt.Sprintf("%d.%02d", 1+g.R.Intn(3000), g.R.Intn(100)))
		}
	}
	return out
}

func (g *Gen) oracleClaim(v int) {
	in := Intent{T: "oracle_claim", V: v, Op: "price", Vals: g.priceVals(), Net: g.net()}
	if g.R.Intn(3) == 0 {
		in.Op = "holders"
		in.Vals = g.holderVals()
	}
	switch g.R.Intn(12) {
	case 0:
		in.N = -1
		g.W.St.Fault("oracle_stale_epoch")
	case 1:
		in.N = 1
		g.W.St.Fault("oracle_future_epoch")
	case 2:
		if in.Op == "price" {
			in.Vals[g.R.Intn(len(in.Vals))] = "-"
			g.W.St.Fault("oracle_missing_price")
		}
	case 3:
		if in.Op == "price" {
			in.Vals[g.R.Intn(len(in.Vals))] = "0"
		}
	case 4:
		in.As = "foreign0"
	}
	g.emit(in)
}

func (g *Gen) holderVals() []string {
	var out []string
	for u := range g.W.Users {
		if g.R.Intn(3) == 0 {
			continue
		}
		t := g.R.Intn(12)
		out = append(out, fmt.Sprintf("u%d=%s", u, holderValue(t).String()))
	}
	return out
}

// oracleRound: every validator reports (mostly the same) prices/holders within one epoch.
// holdersSplit: everybody reports prices and a holder list; the validators are split into two camps whose lists
// differ, the first camp holding EXACTLY two thirds of the current power when the stakes allow it (otherwise the
// closest split): "more than two thirds" must not be met by two thirds.
func (g *Gen) holdersSplit() {
	w := g.W
	st := w.ReadState()
	var pw []int64
	var tot int64
	for _, v := range w.Vals {
		p := st.LastValidatorPower(v.Oper.ValAddr())
		pw = append(pw, p)
		tot += p
	}
	if tot == 0 || len(pw) < 2 || len(pw) > 12 {
		return
	}
	best, bestD := 0, int64(-1)
	for m := 1; m < 1<<uint(len(pw)); m++ {
		var sum int64
		for i := range pw {
			if m>>uint(i)&1 == 1 {
				sum += pw[i]
			}
		}
		d := sum*3 - tot*2
		if d < 0 {
			d = -d
		}
		if bestD < 0 || d < bestD {
			best, bestD = m, d
		}
	}
	if bestD == 0 {
		w.St.Probe("holders-exactly-two-thirds-split")
	}
	// align to the start of an epoch so that every claim lands in the same one
	for (w.N().Height+1)%5 != 1 {
		g.emit(Intent{T: "block", Dt: 5, N: 1})
	}
	prices := g.priceVals()
	a, b := g.holderVals(), g.holderVals()
	for i := range w.Vals {
		g.emit(Intent{T: "oracle_claim", V: i, Op: "price", Vals: prices})
		h := b
		if best>>uint(i)&1 == 1 {
			h = a
		}
		g.emit(Intent{T: "oracle_claim", V: i, Op: "holders", Vals: h})
	}
	g.emit(Intent{T: "block", Dt: 5, N: 6})
}

func (g *Gen) oracleRound() {
	base := g.priceVals()
	hv := g.holderVals()
	// in some rounds everybody reports holders (a holder quorum needs two thirds on the identical list; lists
	// are sets, so some validators send the same entries in another order)
	holdersAll := g.R.Intn(3) == 0
	for v := range g.W.Vals {
		if g.R.Intn(6) == 0 {
			continue
		}
		vals := append([]string(nil), base...)
		if g.R.Intn(3) == 0 {
			vals[g.R.Intn(len(vals))] = fmt.Sprintf("%d", 1+g.R.Intn(5000))
		}
		g.emit(Intent{T: "oracle_claim", V: v, Op: "price", Vals: vals, Net: g.net()})
		if holdersAll || g.R.Intn(2) == 0 {
			h := append([]string(nil), hv...)
			if g.R.Intn(3) == 0 {
				g.R.Shuffle(len(h), func(i, j int) { h[i], h[j] = h[j], h[i] })
			}
			if g.R.Intn(5) == 0 {
				h = g.holderVals()
			}
			hi := Intent{T: "oracle_claim", V: v, Op: "holders", Vals: h, Net: g.net()}
			if g.R.Intn(12) == 0 {
				hi.Mut = "nil_holders"
			}
			g.emit(hi)
		}
		if g.R.Intn(6) == 0 { // repeated claim by the same validator in the epoch
			g.W.St.Fault("oracle_repeat_claim")
			g.emit(Intent{T: "oracle_claim", V: v, Op: "price", Vals: g.priceVals()})
		}
	}
}

var extremeAmounts = []string{"0", "1", "-1", "-1000000000000000000", "57896044618658097711785492504343953926634992332820282019728792003956564819967",
	"115792089237316195423570985008687907853269984665640564039457584007913129639935", "-115792089237316195423570985008687907853269984665640564039457584007913129639935",
	"-57896044618658097711785492504343953926634992332820282019728792003956564819967", "28948022309329048855892746252171976963317496166410141009864396001978282409984",
	"1000000000000000000", "340282366920938463463374607431768211456", "nil"}

func (g *Gen) advEvent() {
	w := g.W
	ch := g.chain()
	t := g.token()
	ops := []string{"ttc", "ttc", "ttc", "sth", "batch", "valset", "call"}
	in := Intent{T: "adv_event", Chain: ch, Op: ops[g.R.Intn(len(ops))], U: g.R.Intn(len(w.Users)), N: g.R.Intn(100000), Pick: g.R.Intn(8)}
	in.Denom = t.Denom
	if t.Chain != ch || g.R.Intn(6) == 0 {
		// unknown token for this chain, in an admissible shape
		if ch == "minter" {
			in.Denom = strconv.Itoa(g.R.Intn(5000))
		} else if g.R.Intn(2) == 0 {
			in.Denom = fmt.Sprintf("%040x", g.R.Int63()) // 40-char form, no 0x
		} else {
			in.Denom = fmt.Sprintf("0x%040x", g.R.Int63())
		}
	}
	in.Amt = extremeAmounts[g.R.Intn(len(extremeAmounts))]
	if in.Amt == "-1" || in.Amt == "-1000000000000000000" || in.Amt == "nil" {
		in.Amt = "1000" // Validate rejects negative amounts; fees are unchecked
	}
	in.Fee = extremeAmounts[g.R.Intn(len(extremeAmounts))]
	in.Gas = extremeAmounts[g.R.Intn(len(extremeAmounts))]
	in.Chain2 = []string{"hub", "ethereum", "bsc", "minter", "solana", ""}[g.R.Intn(6)]
	if g.R.Intn(3) == 0 {
		in.Dest = []string{"0x00000000000000000000000000000000000000Aa", "00000000000000000000000000000000000000aa", "0XABCDEFabcdef00000000000000000000000000aa"}[g.R.Intn(3)]
	}
	if in.Op == "batch" {
		in.Mut = []string{"", "unknown", "0x00000000000000000000000000000000000000b1", "nothex"}[g.R.Intn(4)]
	}
	g.emit(in)
}

// sizeBurstMulti: pools of about the batch size for SEVERAL tokens of one chain within one batching window
// (the cap is per batch: what one token's batch takes must not change what the next token's batch may take).
func (g *Gen) sizeBurstMulti() {
	w := g.W
	byChain := map[string][]TokenCfg{}
	for _, t := range w.Cfg.Tokens {
		byChain[t.Chain] = append(byChain[t.Chain], t)
	}
	var chains []string
	for _, ch := range sortedKeys(byChain) {
		if len(byChain[ch]) >= 2 {
			chains = append(chains, ch)
		}
	}
	if len(chains) == 0 {
		g.sizeBurst()
		return
	}
	toks := byChain[chains[g.R.Intn(len(chains))]]
	txi := 0
	for _, t := range toks {
		n := []int{60, 100, 101, 105}[g.R.Intn(4)]
		for left := n; left > 0; {
			k := 5
			if left < k {
				k = left
			}
			left -= k
			f := strconv.Itoa(g.R.Intn(50))
			if txi%9 == 4 && bigOf(w.Cfg.UserFunds).BitLen() > 135 {
				x := new(big.Int).Lsh(big.NewInt(1), 128)
				f = x.Add(x, big.NewInt(int64(g.R.Intn(3)))).String() // low 128 bits nearly zero: below every ordinary fee if truncated
			}
			g.emit(Intent{T: "user_send", U: txi % len(w.Users), Chain: t.Chain, Denom: t.Denom, Amt: "1000", Fee: f, N: k, Net: "seq" + strconv.Itoa(txi/len(w.Users))})
			txi++
		}
	}
	w.St.Probe("size_burst_multi_token")
}

// sizeBurst: many transfers of one token in one block (pool and batch sizes beyond 64 / 100).
func (g *Gen) sizeBurst() {
	w := g.W
	t := g.token()
	n := []int{20, 70, 101, 130}[g.R.Intn(4)]
	fee := g.fee()
	whale := bigOf(w.Cfg.UserFunds).BitLen() > 135 && g.R.Intn(2) == 0
	for i := 0; i < n; i++ {
		u := i % len(w.Users)
		f := fee
		if g.R.Intn(2) == 0 {
			f = strconv.Itoa(g.R.Intn(50))
		}
		if whale && i%7 == 3 { // a few fees beyond 2^128 among ordinary ones
			x := new(big.Int).Lsh(big.NewInt(1), 128)
			f = x.Add(x, big.NewInt(int64(g.R.Intn(3)))).String() // low 128 bits nearly zero: below every ordinary fee if truncated
		}
		g.emit(Intent{T: "user_send", U: u, Chain: t.Chain, Denom: t.Denom, Amt: "1000", Fee: f, Net: "seq" + strconv.Itoa(i/len(w.Users))})
	}
	if g.R.Intn(3) == 0 {
		// in the same block: a batch request whose gas runs out somewhere inside its scan of the pool, then more writes
		g.emit(Intent{T: "req_batch", U: g.R.Intn(len(w.Users)), Chain: t.Chain, Denom: t.Denom, Net: "gas" + strconv.Itoa([]int{30000, 45000, 60000, 80000, 110000, 150000}[g.R.Intn(6)])})
		for k := 1 + g.R.Intn(3); k > 0; k-- {
			g.emit(Intent{T: "user_send", U: g.R.Intn(len(w.Users)), Chain: t.Chain, Denom: t.Denom, Amt: "1000", Fee: fee})
		}
		w.St.Probe("size_burst_with_out_of_gas_request")
	}
	if len(w.Vals) >= 2 && g.R.Intn(2) == 0 {
		// in the same block, after the large write set: key registrations that are rejected half way through their
		// look-ups (address / orchestrator in use) and accepted ones, followed by more writes
		for k := 1 + g.R.Intn(2); k > 0; k-- {
			v := g.R.Intn(len(w.Vals))
			o := (v + 1 + g.R.Intn(len(w.Vals)-1)) % len(w.Vals)
			g.emit(Intent{T: "set_keys", V: v, Chain: t.Chain, Op: []string{"steal_ext_key", "steal_ext_key", "steal_orch", "fresh"}[g.R.Intn(4)], Pick: o})
		}
		for k := 1 + g.R.Intn(3); k > 0; k-- {
			g.emit(Intent{T: "user_send", U: g.R.Intn(len(w.Users)), Chain: t.Chain, Denom: t.Denom, Amt: "1000", Fee: fee, Net: "seq" + strconv.Itoa(n/len(w.Users)+1+k)})
		}
		w.St.Probe("size_burst_with_key_registration")
	}
	w.St.Probe("size_burst")
}

// hugeFees: 2^255-scale deposits are burnt as bridge fees and minted again, several times inside one batching
// window, so that fee sums over a pool or a batch pass 2^256 (everything here passes stateless validation).
func (g *Gen) hugeFees() {
	w := g.W
	var tok *TokenCfg
	for i := range w.Cfg.Tokens {
		if w.Cfg.Tokens[i].Decimals == 18 {
			tok = &w.Cfg.Tokens[i]
			if g.R.Intn(2) == 0 {
				break
			}
		}
	}
	if tok == nil {
		return
	}
	w.St.Probe("huge-fee-scenario")
	u := g.R.Intn(len(w.Users))
	p255 := new(big.Int).Lsh(big.NewInt(1), 255)
	dep := new(big.Int).Sub(p255, big.NewInt(1)).String()
	amt := new(big.Int).Lsh(big.NewInt(1), 253).String()
	fee := new(big.Int).Sub(new(big.Int).Add(new(big.Int).Lsh(big.NewInt(1), 254), new(big.Int).Lsh(big.NewInt(1), 253)), big.NewInt(1)).String()
	// align so that the window starts right after a batching block
	if w.N().Height%2 == 1 {
		g.emit(Intent{T: "block", Dt: 5, N: 1})
	}
	step := func(deps, sends int) {
		for i := 0; i < sends; i++ {
			g.emit(Intent{T: "user_send", U: u, Chain: tok.Chain, Denom: tok.Denom, Amt: amt, Fee: fee})
		}
		for i := 0; i < deps; i++ {
			g.emit(Intent{T: "adv_event", Chain: tok.Chain, Op: "sth", Denom: tok.Denom, Amt: dep, U: u, Skip: i})
		}
		g.emit(Intent{T: "block", Dt: 5, N: 1})
	}
	step(2, 0)
	for k := 0; k < 4 && !w.Stopped(); k++ {
		step(2, 2)
	}
	step(0, 2)
	g.emit(Intent{T: "block", Dt: 5, N: 3})
}
