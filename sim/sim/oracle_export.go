package sim

import (
	"bytes"
	"encoding/hex"
	"encoding/json"
	"fmt"
	"sort"
	"strings"

	"mhubsim/hub"

	mhub2types "github.com/MinterTeam/mhub2/module/x/mhub2/types"
	tmproto "github.com/tendermint/tendermint/proto/tendermint/types"
)

var mhub2PrefixNames = map[byte]string{
	mhub2types.ValidatorExternalAddressKey: "validator-external-address", mhub2types.OrchestratorValidatorAddressKey: "orchestrator-validator",
	mhub2types.ExternalOrchestratorAddressKey: "external-orchestrator", mhub2types.ExternalSignatureKey: "confirmations",
	mhub2types.ExternalEventVoteRecordKey: "vote-records", mhub2types.OutgoingTxKey: "outgoing-txs", mhub2types.SendToExternalKey: "pool",
	mhub2types.LastEventNonceByValidatorKey: "last-event-nonce-by-validator", mhub2types.LastObservedEventNonceKey: "last-observed-event-nonce",
	mhub2types.LatestSignerSetTxNonceKey: "latest-signer-set-nonce", mhub2types.LastSlashedOutgoingTxBlockKey: "last-slashed-outgoing-tx-block",
	mhub2types.LastSlashedSignerSetTxNonceKey: "last-slashed-signer-set-nonce", mhub2types.LastOutgoingBatchNonceKey: "last-outgoing-batch-nonce",
	mhub2types.OutgoingSequence: "outgoing-sequence", mhub2types.LastSendToExternalIDKey: "last-send-id", mhub2types.LastExternalBlockHeightKey: "last-external-height",
	mhub2types.TokenInfosKey: "token-infos", mhub2types.LastUnBondingBlockHeightKey: "last-unbonding-height", mhub2types.LastObservedSignerSetKey: "last-observed-signer-set",
	mhub2types.TxStatusKey: "tx-status", mhub2types.TxFeeRecordKey: "tx-fee-record",
}

var oraclePrefixNames = map[byte]string{1: "claims", 2: "attestations", 3: "epoch", 4: "prices", 5: "holders"}

// normaliseKV removes what legitimately depends on the height at which the state was (re)created.
func normaliseKV(store string, k, v []byte) []byte {
	if store == "mhub2" && len(k) > 0 && k[0] == mhub2types.LastExternalBlockHeightKey {
		var h mhub2types.LatestBlockHeight
		if h.Unmarshal(v) == nil {
			h.CosmosHeight = 0
			out, _ := h.Marshal()
			return out
		}
	}
	return v
}

type kvSet map[string]string

func dumpByPrefix(n *hub.Node, store string) map[byte]kvSet {
	out := map[byte]kvSet{}
	ks, vs := ReadStateOf(n).StoreDump(store)
	for i := range ks {
		if len(ks[i]) == 0 {
			continue
		}
		p := ks[i][0]
		v := normaliseKV(store, ks[i], vs[i])
		if isZeroEntry(store, p, v) {
			continue // an absent counter reads as zero: "0" and "absent" are the same state
		}
		if out[p] == nil {
			out[p] = kvSet{}
		}
		out[p][string(ks[i])] = string(v)
	}
	return out
}

func diffKV(a, b kvSet) string {
	var keys []string
	for k := range a {
		keys = append(keys, k)
	}
	for k := range b {
		if _, ok := a[k]; !ok {
			keys = append(keys, k)
		}
	}
	sort.Strings(keys)
	for _, k := range keys {
		va, oka := a[k]
		vb, okb := b[k]
		switch {
		case oka && !okb:
			return fmt.Sprintf("key %x is lost (%d of %d keys survive)", k, len(b), len(a))
		case !oka && okb:
			return fmt.Sprintf("key %x appears only after import", k)
		case va != vb:
			return fmt.Sprintf("value of key %x changes: %x -> %x", k, short64(va), short64(vb))
		}
	}
	return ""
}

func short64(s string) []byte {
	if len(s) > 48 {
		return []byte(s[:48])
	}
	return []byte(s)
}

// doExportImport: the hard-fork restart. Only the exported genesis survives; a fresh application is
// initialised from it and from then on runs beside the original on the same blocks.
func (w *World) doExportImport(in Intent) {
	if w.Forked || w.N().InBlock || w.N().Height < 2 {
		return
	}
	orig := w.N()
	var exp []byte
	var expHeight int64
	if c := guardCall(func() {
		e, err := orig.App.ExportAppStateAndValidators(false, nil)
		if err != nil {
			panic(err)
		}
		exp, expHeight = e.AppState, e.Height
	}); c != "" {
		w.Note("C15", "export", "panic", "ExportAppStateAndValidators failed: "+c)
		return
	}
	nn := hub.NewNode(ChainID)
	if c := nn.InitChain(exp, w.Now, expHeight); c != nil {
		w.Note("C15", "import", "panic", "InitChain from the exported genesis failed: "+c.Error())
		return
	}
	// make the freshly initialised (not yet committed) state readable
	nn.InBlock = true
	nn.Header = tmproto.Header{ChainID: ChainID, Height: expHeight, Time: w.Now}
	w.St.Fault("export_import_restart")
	w.St.Probe("nontrivial")
	st := w.ReadState()
	nonEmpty := 0
	for _, ch := range Chains {
		nonEmpty += len(st.Pool(ch)) + len(st.Batches(ch)) + len(st.VoteRecords(ch))
	}
	if nonEmpty > 0 {
		w.St.Probe("export-with-pending-state")
	}
	same := true
	// the modules' parameters (in the params store, sub-spaces mhub2/ and oracle/) are bridge state too
	{
		pa, pb := moduleParams(orig), moduleParams(nn)
		w.St.Check("C15:store-preserved")
		if d := diffKV(pa, pb); d != "" {
			same = false
			w.Note("C15", "store-preserved", "params:module-parameters", "params store, sub-spaces mhub2/ and oracle/: "+d)
		}
	}
	listed := listedChains(orig)
	for _, store := range []string{"mhub2", "oracle"} {
		a := dumpByPrefix(orig, store)
		b := dumpByPrefix(nn, store)
		names := mhub2PrefixNames
		if store == "oracle" {
			names = oraclePrefixNames
		}
		var ps []int
		seen := map[byte]bool{}
		for p := range a {
			seen[p] = true
			ps = append(ps, int(p))
		}
		for p := range b {
			if !seen[p] {
				ps = append(ps, int(p))
			}
		}
		sort.Ints(ps)
		for _, pi := range ps {
			p := byte(pi)
			w.St.Check("C15:store-preserved")
			if store == "mhub2" && (p == mhub2types.ValidatorExternalAddressKey || p == mhub2types.OrchestratorValidatorAddressKey || p == mhub2types.ExternalOrchestratorAddressKey) {
				// the delegate-key registry: which KIND of entry is lost matters (a current registration of a
				// listed chain is not the same defect as a superseded index entry or a chain that is not listed)
				for _, cls := range classifyRegistryDiff(orig, p, a[p], b[p], listed) {
					same = false
					site := fmt.Sprintf("%s:0x%02x:%s:%s", store, p, names[p], cls.class)
					if cls.class == "unlisted-chain" {
						site = fmt.Sprintf("unlisted-chain:%s:0x%02x:%s", store, p, names[p])
					}
					w.Note("C15", "store-preserved", site, fmt.Sprintf("%s store, prefix 0x%02x (%s), %s entries: %s", store, p, names[p], cls.class, cls.detail))
				}
				continue
			}
			// keys that belong to a chain governance has removed from Params.Chains are a class of their own:
			// ExportGenesis walks the listed chains only
			al, bl, au, bu := kvSet{}, kvSet{}, kvSet{}, kvSet{}
			for k, v := range a[p] {
				if store == "mhub2" && unlistedChainKey(k, listed) {
					au[k] = v
				} else {
					al[k] = v
				}
			}
			for k, v := range b[p] {
				if store == "mhub2" && unlistedChainKey(k, listed) {
					bu[k] = v
				} else {
					bl[k] = v
				}
			}
			name := names[p]
			if name == "" {
				name = "unknown"
			}
			if d := diffKV(al, bl); d != "" {
				same = false
				w.Note("C15", "store-preserved", fmt.Sprintf("%s:0x%02x:%s", store, p, name), fmt.Sprintf("%s store, prefix 0x%02x (%s): %s", store, p, name, d))
			}
			if d := diffKV(au, bu); d != "" {
				same = false
				w.Note("C15", "store-preserved", fmt.Sprintf("unlisted-chain:%s:0x%02x:%s", store, p, name), fmt.Sprintf("%s store, prefix 0x%02x (%s), keys of a chain that is not in Params.Chains: %s", store, p, name, d))
			}
		}
	}
	nn.InBlock = false
	nn.Header = tmproto.Header{}
	if in.Op == "compare" {
		w.St.Probe("boundary-compared")
		return
	}
	if same {
		// behaviour must be the same too: run both chains side by side from here on
		w.Nodes = append(w.Nodes, nn)
		w.Forked = true
		w.ForkAt = len(w.Nodes) - 1
		w.ForkHeight = w.N().Height
		w.St.Probe("continuation-compared")
	}
}

func guardCall(f func()) (msg string) {
	defer func() {
		if r := recover(); r != nil {
			msg = fmt.Sprint(r)
		}
	}()
	f()
	return ""
}

// C15 — genesis export/import round trip preserves bridge state.
type C15 struct{ BaseOracle }

func (*C15) Property() string { return "C15" }

func (o *C15) AfterCommit(w *World) {
	if !w.Forked {
		return
	}
	w.St.Check("C15:continuation-equal")
	if w.Mismatch != nil && w.Mismatch.What == "codes" {
		w.Fail("C15", "continuation-equal", "tx-result", "after export/import the restarted chain answers a transaction differently: "+w.Mismatch.Detail)
		return
	}
	orig, nn := w.Nodes[0], w.Nodes[w.ForkAt]
	for _, store := range []string{"mhub2", "oracle", "bank"} {
		a, b := dumpByPrefix(orig, store), dumpByPrefix(nn, store)
		var ps []int
		for p := range a {
			ps = append(ps, int(p))
		}
		for p := range b {
			if _, ok := a[p]; !ok {
				ps = append(ps, int(p))
			}
		}
		sort.Ints(ps)
		for _, pi := range ps {
			if d := diffKV(a[byte(pi)], b[byte(pi)]); d != "" {
				w.Fail("C15", "continuation-equal", fmt.Sprintf("%s:0x%02x", store, pi), fmt.Sprintf("%d blocks after the restart the %s stores of the original and the restarted chain differ at prefix 0x%02x: %s", w.N().Height-w.ForkHeight, store, pi, d))
				return
			}
		}
	}
}

var _ = bytes.Equal
var _ = hex.EncodeToString

func isZeroEntry(store string, p byte, v []byte) bool {
	if store == "oracle" {
		return (p == 4 || p == 5) && len(v) == 0
	}
	if store != "mhub2" {
		return false
	}
	switch p {
	case mhub2types.LastObservedEventNonceKey, mhub2types.LatestSignerSetTxNonceKey, mhub2types.LastSlashedOutgoingTxBlockKey, mhub2types.LastSlashedSignerSetTxNonceKey,
		mhub2types.LastOutgoingBatchNonceKey, mhub2types.OutgoingSequence, mhub2types.LastSendToExternalIDKey, mhub2types.LastEventNonceByValidatorKey:
		return bytes.Equal(v, make([]byte, 8))
	case mhub2types.LastExternalBlockHeightKey:
		var h mhub2types.LatestBlockHeight
		return h.Unmarshal(v) == nil && h.ExternalHeight == 0
	}
	return false
}

type registryDiff struct{ class, detail string }

// classifyRegistryDiff sorts the differences of one delegate-key index into classes:
// foreign-chain (the chain is not one of the bridge's chains), superseded (an index entry that no current
// registration points to), current (part of a validator's current registration), changed, appears.
func classifyRegistryDiff(orig *hub.Node, p byte, a, b kvSet, listed map[string]bool) []registryDiff {
	st := ReadStateOf(orig)
	type reg struct{ valExt, orchVal, extOrch map[string]string }
	regs := map[string]reg{}
	for _, ch := range Chains {
		ve, ov, eo := st.DelegateIndexes(ch)
		regs[ch] = reg{ve, ov, eo}
	}
	chainOf := func(k string) (string, string) {
		for _, ch := range Chains {
			if len(k) == 1+len(ch)+20 && k[1:1+len(ch)] == ch {
				return ch, k[1+len(ch):]
			}
		}
		return "", ""
	}
	found := map[string][]string{}
	add := func(class, detail string) { found[class] = append(found[class], detail) }
	var keys []string
	for k := range a {
		keys = append(keys, k)
	}
	for k := range b {
		if _, ok := a[k]; !ok {
			keys = append(keys, k)
		}
	}
	sort.Strings(keys)
	for _, k := range keys {
		va, oka := a[k]
		vb, okb := b[k]
		switch {
		case oka && okb && va == vb:
			continue
		case oka && okb:
			add("changed", fmt.Sprintf("value of key %x changes: %x -> %x", k, va, vb))
		case !oka:
			add("appears", fmt.Sprintf("key %x appears only after import", k))
		default:
			ch, rest := chainOf(k)
			if ch == "" {
				add("foreign-chain", fmt.Sprintf("key %x is lost", k))
				continue
			}
			if listed != nil && !listed[ch] {
				add("unlisted-chain", fmt.Sprintf("key %x (%s) is lost", k, ch))
				continue
			}
			r := regs[ch]
			extIsCurrent := func(e string) bool {
				for _, x := range r.valExt {
					if x == e {
						return true
					}
				}
				return false
			}
			current := false
			switch p {
			case mhub2types.ValidatorExternalAddressKey:
				current = true
			case mhub2types.ExternalOrchestratorAddressKey:
				current = extIsCurrent(rest)
			case mhub2types.OrchestratorValidatorAddressKey:
				for e, o := range r.extOrch {
					if o == rest && extIsCurrent(e) {
						current = true
					}
				}
			}
			if current {
				add("current", fmt.Sprintf("key %x (%s) is lost", k, ch))
			} else {
				add("superseded", fmt.Sprintf("key %x (%s) is lost", k, ch))
			}
		}
	}
	var out []registryDiff
	for _, c := range []string{"current", "changed", "appears", "superseded", "foreign-chain", "unlisted-chain"} {
		if d := found[c]; len(d) > 0 {
			out = append(out, registryDiff{c, fmt.Sprintf("%s (%d such entries)", d[0], len(d))})
		}
	}
	return out
}

// moduleParams returns the parameters of the bridge and oracle modules as stored.
func moduleParams(n *hub.Node) kvSet {
	out := kvSet{}
	ks, vs := ReadStateOf(n).StoreDump("params")
	for i := range ks {
		k := string(ks[i])
		if strings.HasPrefix(k, "mhub2/") || strings.HasPrefix(k, "oracle/") {
			v := string(vs[i])
			if v == "null" {
				v = "[]" // an emptied list parameter reads back the same either way
			}
			out[k] = v
		}
	}
	return out
}

// listedChains reads Params.Chains of a node (nil: parameter unreadable, treat every chain as listed).
func listedChains(n *hub.Node) map[string]bool {
	raw, ok := moduleParams(n)["mhub2/Chains"]
	if !ok {
		return nil
	}
	var l []string
	if json.Unmarshal([]byte(raw), &l) != nil {
		return nil
	}
	out := map[string]bool{}
	for _, c := range l {
		out[c] = true
	}
	return out
}

// unlistedChainKey: the key is a per-chain key (prefix byte, chain name, ...) of a bridge chain that is not listed now.
func unlistedChainKey(k string, listed map[string]bool) bool {
	if listed == nil || len(k) < 2 {
		return false
	}
	for _, ch := range Chains {
		if strings.HasPrefix(k[1:], ch) {
			return !listed[ch]
		}
	}
	return false
}
