package sim

import (
	"bytes"
	"crypto/sha256"
	"encoding/hex"
	"fmt"
	"mhubsim/ext"
	"os"
	"sort"
	"time"

	"mhubsim/hub"

	sdk "github.com/cosmos/cosmos-sdk/types"
	abci "github.com/tendermint/tendermint/abci/types"
)

// Oracle is a property checker. Hooks are called by the block loop and by actors.
type Oracle interface {
	Property() string
	Init(w *World)
	AfterBegin(w *World)              // snapshot A: live state right after BeginBlock
	BeforeTx(w *World, tx *PendingTx) // just before DeliverTx
	AfterTx(w *World, r *TxResult)    // snapshot B
	AfterEnd(w *World)                // snapshot C: after EndBlock, before Commit
	AfterCommit(w *World)             // committed state
	OnExtCall(w *World, c *ExtCall)   // a relayer/user call to an external model
	Finish(w *World)                  // end of run (history checks, liveness)
}

type BaseOracle struct{}

func (BaseOracle) Init(*World)                 {}
func (BaseOracle) AfterBegin(*World)           {}
func (BaseOracle) BeforeTx(*World, *PendingTx) {}
func (BaseOracle) AfterTx(*World, *TxResult)   {}
func (BaseOracle) AfterEnd(*World)             {}
func (BaseOracle) AfterCommit(*World)          {}
func (BaseOracle) OnExtCall(*World, *ExtCall)  {}
func (BaseOracle) Finish(*World)               {}

// ExtCall records one call into an external model.
type ExtCall struct {
	Chain    string
	Kind     string // deposit | valset | batch | logic
	Err      error
	Expected *bool // what the statement-level predicate says (nil = no opinion)
	Info     map[string]string
	Cur      []ext.Member // the "current validator set" the relayer got from the hub and hands to the contract
	CurNonce uint64
}

func (w *World) tickExternal(dtSec int) {
	ms := uint64(dtSec) * 1000
	for _, ch := range []string{"ethereum", "bsc"} {
		e := w.Eth[ch]
		if e == nil || w.Stalled[ch] {
			continue
		}
		per := w.Cfg.AvgEthBlockMs
		if ch == "bsc" {
			per = w.Cfg.AvgBscBlockMs
		}
		w.extMsAcc[ch] += ms
		e.Height += w.extMsAcc[ch] / per
		w.extMsAcc[ch] %= per
	}
	if w.Minter != nil && !w.Stalled["minter"] {
		w.Minter.NextBlock()
	}
}

func (w *World) votes(miss []int) []abci.VoteInfo {
	st := w.ReadState()
	missing := map[int]bool{}
	for _, m := range miss {
		missing[m] = true
	}
	var out []abci.VoteInfo
	add := func(idx int, oper sdk.ValAddress, consAddr []byte) {
		p := st.LastValidatorPower(oper)
		if p <= 0 {
			return
		}
		out = append(out, abci.VoteInfo{Validator: abci.Validator{Address: consAddr, Power: p}, SignedLastBlock: !missing[idx]})
	}
	for i, v := range w.Vals {
		add(i, v.Oper.ValAddr(), v.Cons.PubKey().Address())
	}
	for i, l := range []string{"newval0", "newval1"} {
		add(100+i, w.Extra[l].ValAddr(), hub.DetConsKey(l).PubKey().Address())
	}
	return out
}

func eventsDigest(evs []abci.Event) string {
	h := sha256.New()
	for _, e := range evs {
		h.Write([]byte(e.Type))
		h.Write([]byte{0})
		for _, a := range e.Attributes {
			h.Write(a.Key)
			h.Write([]byte{1})
			h.Write(a.Value)
			h.Write([]byte{2})
		}
	}
	return hex.EncodeToString(h.Sum(nil)[:8])
}

// replicaMismatch is how C06 learns about divergence; set by the block loop.
type ReplicaMismatch struct {
	What   string
	Detail string
}

// ProduceBlock executes one hub block on every replica.
func (w *World) ProduceBlock(dtSec int, miss []int) {
	if w.Stopped() {
		return
	}
	if dtSec < 1 {
		dtSec = 1
	}
	w.Now = w.Now.Add(time.Duration(dtSec) * time.Second)
	if w.N().Height >= 1 { // external chains exist only after bootstrap
		w.tickExternal(dtSec)
	}
	votes := w.votes(miss)
	w.BlockEvents = nil
	w.LastBlockTxs = nil
	w.Mismatch = nil

	var proposer []byte
	if len(votes) > 0 {
		proposer = votes[0].Validator.Address
	}
	for i, n := range w.Nodes {
		resp, c := n.BeginBlock(w.Now, votes, proposer)
		if c != nil {
			w.Crash = c
			w.St.Inc("crash:" + c.Kind + ":" + c.Call)
			return
		}
		if i == 0 {
			w.BlockEvents = append(w.BlockEvents, resp.Events...)
			w.beginDigest = eventsDigest(resp.Events)
		} else if d := eventsDigest(resp.Events); d != w.beginDigest && !w.isFork(i) {
			w.noteMismatch("events", fmt.Sprintf("BeginBlock events differ on replica %d at height %d", i, n.Header.Height))
		}
	}
	h := w.N().Header.Height
	w.St.Blocks++
	// a node crash inside the block: the process dies at a chosen stage, restarts from what is durable
	// (the last commit) and re-executes the block from its beginning, as Tendermint's handshake does
	crashStage := -1
	if w.MidCrash != nil {
		due := 0
		for _, tx := range w.Mempool {
			if tx.DeliverAt <= h {
				due++
			}
		}
		crashStage = w.MidCrash.Pick % (due + 2)
	}
	midCrash := func(stage int) bool {
		if stage != crashStage || w.MidCrash == nil {
			return true
		}
		mc := w.MidCrash
		w.MidCrash = nil
		i := mc.Node % len(w.Nodes)
		n := w.Nodes[i]
		w.St.Fault("node_crash_mid_block")
		w.Logf("h=%d node %d crashes at stage %d and re-executes the block", h, i, stage)
		n.Restart()
		resp, c := n.BeginBlock(w.Now, votes, proposer)
		if c != nil {
			w.Crash = c
			w.St.Inc("crash:" + c.Kind + ":" + c.Call)
			return false
		}
		if !w.isFork(i) && eventsDigest(resp.Events) != w.beginDigest {
			w.noteMismatch("events", fmt.Sprintf("BeginBlock events differ when node %d re-executes height %d after a crash", i, h))
		}
		for j := range w.LastBlockTxs {
			r, c := n.DeliverTx(w.LastBlockTxs[j].Tx.Bytes)
			if c != nil {
				w.Crash = c
				w.St.Inc("crash:" + c.Kind + ":" + c.Call)
				return false
			}
			r0 := w.LastBlockTxs[j].Res
			if r.Code != r0.Code || (!w.isFork(i) && (eventsDigest(r.Events) != eventsDigest(r0.Events) || !bytes.Equal(r.Data, r0.Data))) {
				w.noteMismatch("codes", fmt.Sprintf("tx %d answers differently when node %d re-executes height %d after a crash: code %d vs %d", j, i, h, r.Code, r0.Code))
			}
		}
		if stage == len(w.LastBlockTxs)+1 && mc.AfterEnd {
			resp, c := n.EndBlock()
			if c != nil {
				w.Crash = c
				w.St.Inc("crash:" + c.Kind + ":" + c.Call)
				return false
			}
			if !w.isFork(i) && eventsDigest(resp.Events) != w.endDigest {
				w.noteMismatch("events", fmt.Sprintf("EndBlock events differ when node %d re-executes height %d after a crash", i, h))
			}
		}
		return true
	}
	if !midCrash(0) {
		return
	}
	for _, o := range w.activeOracles() {
		o.AfterBegin(w)
		if w.Stopped() {
			return
		}
	}

	// mempool: everything whose delivery time has come, in arrival order
	var now, later []*PendingTx
	for _, tx := range w.Mempool {
		if tx.DeliverAt <= h {
			now = append(now, tx)
		} else {
			later = append(later, tx)
		}
	}
	w.Mempool = later
	for _, tx := range now {
		for _, o := range w.activeOracles() {
			o.BeforeTx(w, tx)
		}
		var r0 abci.ResponseDeliverTx
		for i, n := range w.Nodes {
			r, c := n.DeliverTx(tx.Bytes)
			if c != nil {
				w.Crash = c
				w.St.Inc("crash:" + c.Kind + ":" + c.Call)
				return
			}
			if i == 0 {
				r0 = r
			} else if r.Code != r0.Code || (!w.isFork(i) && (eventsDigest(r.Events) != eventsDigest(r0.Events) || !bytes.Equal(r.Data, r0.Data))) {
				w.noteMismatch("codes", fmt.Sprintf("tx result differs on replica %d at height %d: code %d vs %d", i, h, r.Code, r0.Code))
			}
		}
		w.St.Txs++
		if r0.Code != 0 {
			w.St.TxsFailed++
			w.St.Inc("txfail:" + tx.Kind)
		} else {
			w.St.Inc("txok:" + tx.Kind)
		}
		if r0.Code != 0 {
			w.Logf("h=%d tx %s code=%d %s", h, tx.Kind, r0.Code, firstLine(r0.Log))
		} else {
			w.Logf("h=%d tx %s code=%d", h, tx.Kind, r0.Code)
		}
		tr := TxResult{Tx: tx, Code: r0.Code, Log: r0.Log, Res: r0}
		w.LastBlockTxs = append(w.LastBlockTxs, tr)
		for _, o := range w.activeOracles() {
			o.AfterTx(w, &w.LastBlockTxs[len(w.LastBlockTxs)-1])
			if w.Stopped() {
				return
			}
		}
		if !midCrash(len(w.LastBlockTxs)) {
			return
		}
	}

	w.capturePreEnd()
	for i, n := range w.Nodes {
		resp, c := n.EndBlock()
		if c != nil {
			w.Crash = c
			w.St.Inc("crash:" + c.Kind + ":" + c.Call)
			return
		}
		if i == 0 {
			w.BlockEvents = append(w.BlockEvents, resp.Events...)
			w.endDigest = eventsDigest(resp.Events)
		} else if d := eventsDigest(resp.Events); d != w.endDigest && !w.isFork(i) {
			w.noteMismatch("events", fmt.Sprintf("EndBlock events differ on replica %d at height %d", i, h))
		}
	}
	if crashStage == len(w.LastBlockTxs)+1 && w.MidCrash != nil {
		w.MidCrash.AfterEnd = true
		if !midCrash(crashStage) {
			return
		}
	}
	if !w.booting && w.ReadState().LastTotalPower().IsZero() {
		// every validator left the bonded set in this block: Tendermint refuses an empty validator set
		// ("applying the validator changes would result in empty set") and the chain stops here
		w.Halted = "no bonded voting power left"
		w.St.Probe("chain-halted-empty-validator-set")
		return
	}
	w.checkByzantineBound()
	for _, o := range w.activeOracles() {
		o.AfterEnd(w)
		if w.Stopped() {
			return
		}
	}
	var h0 []byte
	for i, n := range w.Nodes {
		hash, c := n.Commit()
		if c != nil {
			w.Crash = c
			return
		}
		if i == 0 {
			h0 = hash
		} else if !bytes.Equal(hash, h0) && !w.isFork(i) {
			w.noteMismatch("apphash", fmt.Sprintf("app hash differs on replica %d at height %d: %x vs %x", i, h, hash, h0))
		}
	}
	w.pend = nil // clients re-read their sequence after every block (pipelining only spans one inter-block window)
	w.Logf("h=%d apphash=%x txs=%d", h, h0, len(now))
	{
		th := sha256.New()
		for _, tr := range w.LastBlockTxs {
			fmt.Fprintf(th, "%d|%s|%x;", tr.Res.Code, eventsDigest(tr.Res.Events), tr.Res.Data)
		}
		w.Trail = append(w.Trail, fmt.Sprintf("h=%d app=%x begin=%s end=%s txs=%d:%x", h, h0, w.beginDigest, w.endDigest, len(w.LastBlockTxs), th.Sum(nil)[:8]))
	}
	w.St.SimSeconds += int64(dtSec)
	for _, o := range w.activeOracles() {
		o.AfterCommit(w)
		if w.Stopped() {
			return
		}
	}
}

func (w *World) noteMismatch(what, detail string) {
	if w.Mismatch == nil {
		w.Mismatch = &ReplicaMismatch{What: what, Detail: detail}
	}
}

// Submit places a signed tx into the simulated network.
func (w *World) Submit(kind string, signer *hub.Account, net string, meta map[string]string, msgs ...sdk.Msg) *PendingTx {
	num, seq, ok := w.N().AccountInfo(signer.Addr)
	if !ok {
		w.St.Inc("submit:no-account")
		return nil
	}
	// clients pipeline: several txs of one account between two blocks use consecutive sequences
	if w.pend == nil {
		w.pend = map[string][2]uint64{}
	}
	p := w.pend[signer.Addr.String()]
	if p[0] != seq+1 { // stored as committed+1 so that the zero value means "unknown"
		p = [2]uint64{seq + 1, 0}
	}
	use := seq + p[1]
	p[1]++
	w.pend[signer.Addr.String()] = p
	return w.SubmitSeq(kind, signer, num, use, net, meta, msgs...)
}

func (w *World) SubmitSeq(kind string, signer *hub.Account, num, seq uint64, net string, meta map[string]string, msgs ...sdk.Msg) *PendingTx {
	gas := uint64(1_000_000_000)
	if len(net) > 3 && net[:3] == "gas" {
		// the client set a gas limit: the transaction may run out of gas anywhere in its execution and then fails as a whole
		var g uint64
		fmt.Sscanf(net[3:], "%d", &g)
		if g > 0 {
			gas = g
			w.St.Fault("tx_gas_limit")
		}
		net = ""
	}
	bz, err := hub.SignTxGas(ChainID, signer, num, seq, "", gas, msgs...)
	if err != nil {
		w.St.Inc("submit:sign-error")
		return nil
	}
	w.txSeq++
	tx := &PendingTx{Bytes: bz, Kind: kind, Signer: signer.Addr.String(), Msgs: msgs, DeliverAt: w.N().Height + 1, Meta: meta, Intent: w.CurIntent, Seq: w.txSeq}
	switch {
	case net == "drop":
		w.St.Fault("net_drop")
		return tx
	case net == "dup":
		w.St.Fault("net_dup")
		w.Mempool = append(w.Mempool, tx)
		d := *tx
		w.Mempool = append(w.Mempool, &d)
	case len(net) > 5 && net[:5] == "delay":
		w.St.Fault("net_delay")
		var k int64
		fmt.Sscanf(net[5:], "%d", &k)
		tx.DeliverAt += k
		w.Mempool = append(w.Mempool, tx)
	case net == "front":
		w.St.Fault("net_reorder")
		w.Mempool = append([]*PendingTx{tx}, w.Mempool...)
	default:
		w.Mempool = append(w.Mempool, tx)
	}
	return tx
}

func sortedKeys[V any](m map[string]V) []string {
	ks := make([]string, 0, len(m))
	for k := range m {
		ks = append(ks, k)
	}
	sort.Strings(ks)
	return ks
}

// capturePreEnd remembers the balances of every account the oracles care about just before EndBlock.
func (w *World) capturePreEnd() {
	st := w.ReadState()
	w.preEndTokens = st.TokenInfos()
	w.preEndHolders = st.OracleHolders() // the holder list in force while this block's events are applied (the oracle module ends its block after the bridge)
	w.preEndBal = map[string]sdk.Int{}
	accs := []sdk.AccAddress{}
	for _, u := range w.Users {
		accs = append(accs, u.Acc.Addr)
	}
	for _, k := range sortedKeys(w.Extra) {
		accs = append(accs, w.Extra[k].Addr)
	}
	accs = append(accs, TempAddr())
	for _, a := range accs {
		for _, d := range w.Cfg.Denoms() {
			w.preEndBal[a.String()+"|"+d] = st.Balance(a, d)
		}
	}
}

func (w *World) activeOracles() []Oracle {
	if w.booting {
		return nil
	}
	return w.Oracles
}

// anteRejected: the tx never reached its message handler (wrong sequence, bad tx signature, fee).
func anteRejected(r *TxResult) bool {
	if r.Code == 0 || r.Res.Codespace != "sdk" {
		return false
	}
	switch r.Code {
	case 4, 5, 13, 32:
		return true
	case 11: // out of gas: the transaction did not happen, wherever it stopped
		return true
	}
	return false
}

// isFork: replica i is the chain restarted from an exported genesis (its history, hence its app hash and
// height-dependent events, legitimately differ; tx results and bridge state must not).
func (w *World) isFork(i int) bool { return w.Forked && i == w.ForkAt }

// checkByzantineBound: the properties promise safety against a Byzantine MINORITY. Validators that have sent
// a false claim are Byzantine; if stake churn or jailing of others lifts their share of the bonded power to
// a third or more, what gets applied is no longer owed to be the truth, and the oracles that compare the hub
// with the external ground truth stop judging this run (Tainted).
func (w *World) checkByzantineBound() {
	if w.Tainted || len(w.ByzVals) == 0 {
		return
	}
	st := w.ReadState()
	byz := sdk.ZeroInt()
	for _, k := range sortedKeys(w.ByzVals) {
		if va, err := sdk.ValAddressFromBech32(k); err == nil {
			byz = byz.Add(sdk.NewInt(st.LastValidatorPower(va)))
		}
	}
	if byz.IsPositive() && byz.MulRaw(100).GTE(st.LastTotalPower().MulRaw(34)) {
		w.Tainted = true
		w.St.Probe("byzantine-power-above-bound")
	}
}

func firstLine(s string) string {
	for i, c := range s {
		if c == '\n' && os.Getenv("MHUBSIM_HUBLOG") == "" {
			return s[:i]
		}
	}
	if len(s) > 160 && os.Getenv("MHUBSIM_HUBLOG") == "" {
		return s[:160]
	}
	return s
}
