package sim

import (
	"bytes"
	"encoding/hex"
	"fmt"
	"math/big"
	"sort"
	"strings"

	mhub2types "github.com/MinterTeam/mhub2/module/x/mhub2/types"
	sdk "github.com/cosmos/cosmos-sdk/types"
	stakingtypes "github.com/cosmos/cosmos-sdk/x/staking/types"
)

// ------------------------------------------------------------------------------------------------
// C14 — votes aggregate only on identical events.
type C14 struct {
	BaseOracle
	seen  map[string][]claimSeen // chain/nonce -> successful claims
	swept map[string]uint64      // chain -> highest true event nonce whose mutations were enumerated
}

type claimSeen struct {
	content []byte
	id      string
	mut     string
	etype   string
}

func (*C14) Property() string { return "C14" }
func (o *C14) Init(w *World) {
	o.seen = map[string][]claimSeen{}
	o.swept = map[string]uint64{}
}

// sweep: for every event the external chains have emitted, EVERY listed one-field mutation (and boundary
// shift) is built and its claim identifier compared with the true event's — the enumeration of the property's
// field list, on the real Hash() code, with the run's real events as the base values.
func (o *C14) sweep(w *World) {
	for _, ch := range Chains {
		top := w.lastExtNonce(ch)
		for n := o.swept[ch] + 1; n <= top; n++ {
			truth := w.TrueClaim(ch, n)
			o.swept[ch] = n
			if truth == nil {
				continue
			}
			tn := eventTypeName(truth)
			th := truth.Hash()
			for _, f := range MutationFields[tn] {
				m := w.Mutate(ch, truth, f)
				if m == nil || m.Validate(mhub2types.ChainID(ch)) != nil {
					continue
				}
				w.St.Check("C14:separate-records")
				w.St.Probe("enumerated:" + tn + ":" + f)
				w.St.Probe("nontrivial")
				if bytes.Equal(th, m.Hash()) && eventTypeName(m) == tn || (eventTypeName(m) != tn && bytes.Equal(th, m.Hash())) {
					w.Fail("C14", "separate-records", tn+":"+f, fmt.Sprintf("%s nonce %d: the true %s and an admissible copy differing in '%s' get the same claim identifier %x (true: %s | copy: %s)", ch, n, tn, f, th, truth.String(), m.String()))
					return
				}
			}
			// ... and, for signer-set events, two copies that spell DIFFERENT members in the chain's native address
			// notation (admissible or not is the hub's decision; if both are, they are different events)
			if se, ok := truth.(*mhub2types.SignerSetTxExecutedEvent); ok && len(se.Members) > 0 {
				mk := func(flip bool) mhub2types.ExternalEvent {
					c := *se
					c.Members = nil
					for i, mm := range se.Members {
						x := *mm
						if i == 0 {
							h := strings.TrimPrefix(strings.ToLower(x.ExternalAddress), "0x")
							if flip {
								h = flipHexChar(h, len(h)-1)
							}
							x.ExternalAddress = "Mx" + h
						}
						c.Members = append(c.Members, &x)
					}
					return &c
				}
				m1, m2 := mk(false), mk(true)
				if m1.Validate(mhub2types.ChainID(ch)) == nil && m2.Validate(mhub2types.ChainID(ch)) == nil {
					w.St.Check("C14:separate-records")
					w.St.Probe("enumerated:" + tn + ":member_notation")
					if bytes.Equal(m1.Hash(), m2.Hash()) {
						w.Fail("C14", "separate-records", tn+":member_notation", fmt.Sprintf("%s nonce %d: two admissible %s copies naming different first members (%s / %s) get the same claim identifier %x", ch, n, tn, m1.(*mhub2types.SignerSetTxExecutedEvent).Members[0].ExternalAddress, m2.(*mhub2types.SignerSetTxExecutedEvent).Members[0].ExternalAddress, m1.Hash()))
						return
					}
				}
			}
			// ... and every shift of one or two characters between any two of its variable-length fields
			for _, x := range crossShifts(truth) {
				if x.ev.Validate(mhub2types.ChainID(ch)) != nil || x.ev.String() == truth.String() {
					continue
				}
				w.St.Check("C14:separate-records")
				w.St.Probe("enumerated:" + tn + ":xshift")
				if bytes.Equal(th, x.ev.Hash()) {
					w.Fail("C14", "separate-records", tn+":"+x.name, fmt.Sprintf("%s nonce %d: the true %s and an admissible copy in which characters moved between two fields (%s) get the same claim identifier %x (true: %s | copy: %s)", ch, n, tn, x.name, th, truth.String(), x.ev.String()))
					return
				}
			}
		}
	}
}

func claimIDs(r *TxResult) []string {
	var out []string
	for _, e := range r.Res.Events {
		if e.Type != sdk.EventTypeMessage {
			continue
		}
		for _, a := range e.Attributes {
			if string(a.Key) == mhub2types.AttributeKeyEthereumEventVoteRecordID {
				out = append(out, string(a.Value))
			}
		}
	}
	return out
}

func (o *C14) AfterTx(w *World, r *TxResult) {
	if r.Tx.Kind != "claim" || r.Code != 0 {
		return
	}
	ids := claimIDs(r)
	chain := r.Tx.Meta["chain"]
	for i, m := range r.Tx.Msgs {
		cm, ok := m.(*mhub2types.MsgSubmitExternalEvent)
		if !ok || i >= len(ids) {
			continue
		}
		ev, err := mhub2types.UnpackEvent(cm.Event)
		if err != nil {
			continue
		}
		// what the claim says, field by field (the spelling of a member address and the order of members are
		// not fields: the same 20 bytes and the same set are the same report)
		content := []byte(eventText(ev))
		key := fmt.Sprintf("%s/%d", chain, ev.GetEventNonce())
		cur := claimSeen{content: content, id: ids[i], mut: r.Tx.Meta["mut"], etype: eventTypeName(ev)}
		for _, old := range o.seen[key] {
			w.St.Check("C14:separate-records")
			if !bytes.Equal(old.content, cur.content) {
				w.St.Probe("nontrivial")
				w.St.Probe("pair:" + cur.etype)
				if old.id == cur.id {
					mut, et := cur.mut, cur.etype
					if mut == "" {
						mut, et = old.mut, old.etype
					}
					if cur.etype != old.etype {
						mut = "type"
					}
					w.Fail("C14", "separate-records", et+":"+mut, fmt.Sprintf("%s nonce %d: two claims that differ in field '%s' of %s were given the same claim identifier %x", chain, ev.GetEventNonce(), mut, et, cur.id))
					return
				}
			}
		}
		o.seen[key] = append(o.seen[key], cur)
	}
	o.voteLandsOnOwnEvent(w, r)
}

// voteLandsOnOwnEvent: whatever record a validator's vote is added to by this transaction holds exactly the
// event that validator reported (also for a vote that arrives after the nonce was settled).
func (o *C14) voteLandsOnOwnEvent(w *World, r *TxResult) {
	t := w.T()
	chain := r.Tx.Meta["chain"]
	val, ok := w.valOfSigner(chain, r.Tx.Signer)
	if !ok {
		return
	}
	count := func(s *Snap, key []byte) int {
		n := 0
		for _, rec := range s.Votes[chain] {
			if bytes.Equal(rec.Key, key) {
				for _, v := range rec.Rec.Votes {
					if v == val.String() {
						n++
					}
				}
			}
		}
		return n
	}
	said := map[uint64][]string{}
	for _, m := range r.Tx.Msgs {
		if cm, ok := m.(*mhub2types.MsgSubmitExternalEvent); ok && cm.ChainId == chain {
			if ev := DecodeEvent(cm.Event); ev != nil {
				said[ev.GetEventNonce()] = append(said[ev.GetEventNonce()], eventText(ev))
			}
		}
	}
	for _, rec := range t.Cur.Votes[chain] {
		if count(t.Cur, rec.Key) <= count(t.Prev, rec.Key) {
			continue
		}
		w.St.Check("C14:vote-on-own-event")
		stored := eventText(DecodeEvent(rec.Rec.Event))
		match := false
		for _, x := range said[rec.Nonce] {
			if x == stored {
				match = true
			}
		}
		if !match {
			w.Fail("C14", "separate-records", "vote-on-other-event", fmt.Sprintf("%s nonce %d: the vote of %s was added to a record that holds %s, but that validator reported %v", chain, rec.Nonce, val, stored, said[rec.Nonce]))
			return
		}
	}
}

func (o *C14) AfterEnd(w *World) {
	o.sweep(w)
	if w.Stopped() {
		return
	}
	t := w.T()
	// the obligation assumes the Byzantine validators stay below the power that can apply an event alone
	st := w.ReadState()
	byz := sdk.ZeroInt()
	for _, k := range sortedKeys(w.ByzVals) {
		if va, err := sdk.ValAddressFromBech32(k); err == nil {
			byz = byz.Add(sdk.NewInt(st.LastValidatorPower(va)))
		}
	}
	if byz.MulRaw(100).GTE(st.LastTotalPower().MulRaw(34)) && byz.IsPositive() {
		w.St.Probe("byzantine-power-above-bound-skip")
		return
	}
	for _, a := range t.Applied {
		truth := w.TrueClaim(a.Chain, a.Nonce)
		if truth == nil || a.Event == nil {
			continue
		}
		w.St.Check("C14:applied-is-truth")
		if w.Tainted {
			return
		}
		ta, err := mhub2types.PackEvent(canonEvent(truth))
		if err != nil {
			continue
		}
		got, err2 := mhub2types.PackEvent(canonEvent(a.Event))
		if err2 != nil {
			continue
		}
		if !bytes.Equal(ta.Value, got.Value) || ta.TypeUrl != got.TypeUrl {
			w.Fail("C14", "applied-is-truth", eventTypeName(truth), fmt.Sprintf("%s nonce %d: the event that took effect is not the one the external chain emitted (a differing claim was tallied together with the honest votes): applied %s, true %s",
				a.Chain, a.Nonce, a.Event.String(), truth.String()))
			return
		}
	}
}

// ------------------------------------------------------------------------------------------------
// C09 — signer sets mirror bonded voting power.
type C09 struct {
	BaseOracle
	tieOrder map[string]bool // chain|a|b -> a was published before b at equal power
}

func (*C09) Property() string { return "C09" }
func (o *C09) Init(w *World)  { o.tieOrder = map[string]bool{} }

const u32max = 4294967295

type memberX struct {
	addr  [20]byte
	stake int64
}

// currentMembers recomputes, from the raw staking and key stores, who must be in a set published now.
func currentMembers(st *State, chain string) []memberX {
	var out []memberX
	vals := st.AllValidators()
	for _, v := range vals {
		if v.Status != stakingtypes.Bonded || v.Jailed {
			continue
		}
		va, err := sdk.ValAddressFromBech32(v.OperatorAddress)
		if err != nil {
			continue
		}
		ea := st.ValExtAddr(chain, va)
		if len(ea) == 0 {
			continue
		}
		var a [20]byte
		copy(a[20-len(ea):], ea)
		if a == ([20]byte{}) {
			continue
		}
		p := st.LastValidatorPower(va)
		if p <= 0 {
			continue
		}
		out = append(out, memberX{a, p})
	}
	return out
}

func (o *C09) AfterBegin(w *World) {
	t := w.T()
	st := w.ReadState()
	h := uint64(t.Cur.Height)
	for _, ch := range Chains {
		cur := currentMembers(st, ch)
		var tot int64
		byAddr := map[[20]byte]int64{}
		for _, m := range cur {
			tot += m.stake
			byAddr[m.addr] = m.stake
		}
		// newly published sets
		var fresh []*mhub2types.SignerSetTx
		for n, s := range t.Cur.SSets[ch] {
			if _, old := t.Prev.SSets[ch][n]; !old {
				fresh = append(fresh, s)
			}
		}
		sort.Slice(fresh, func(i, j int) bool { return fresh[i].Nonce < fresh[j].Nonce })
		expNonce := t.Prev.SSNonce[ch]
		for _, s := range fresh {
			w.St.Check("C09:set")
			w.St.Probe("nontrivial")
			expNonce++
			if s.Nonce != expNonce {
				w.Fail("C09", "nonce", ch, fmt.Sprintf("%s: new signer set has nonce %d, expected %d", ch, s.Nonce, expNonce))
				return
			}
			if s.Height != h {
				continue
			}
			if len(s.Signers) != len(cur) {
				w.Fail("C09", "members", "count", fmt.Sprintf("%s: signer set %d has %d members; %d bonded validators hold a key for the chain", ch, s.Nonce, len(s.Signers), len(cur)))
				return
			}
			var sum uint64
			var prevP uint64 = 1 << 63
			for i, m := range s.Signers {
				a := parse20(m.ExternalAddress)
				stake, ok := byAddr[a]
				if !ok {
					w.Fail("C09", "members", "stranger", fmt.Sprintf("%s: signer set %d lists %s, which is not the key of a bonded validator", ch, s.Nonce, m.ExternalAddress))
					return
				}
				// |p − stake·(2^32−1)/tot| < 1
				exact := new(big.Rat).SetFrac(new(big.Int).Mul(big.NewInt(stake), big.NewInt(u32max)), big.NewInt(tot))
				diff := new(big.Rat).Sub(new(big.Rat).SetInt(new(big.Int).SetUint64(m.Power)), exact)
				if diff.Abs(diff).Cmp(big.NewRat(1, 1)) >= 0 {
					w.Fail("C09", "powers", "normalisation", fmt.Sprintf("%s: signer set %d gives %s power %d; stake %d of %d normalises to %s", ch, s.Nonce, m.ExternalAddress, m.Power, stake, tot, exact.FloatString(3)))
					return
				}
				sum += m.Power
				if m.Power > prevP {
					w.Fail("C09", "order", "power", fmt.Sprintf("%s: signer set %d is not ordered by non-increasing power at position %d", ch, s.Nonce, i))
					return
				}
				if i > 0 && m.Power == prevP {
					w.St.Probe("tie-in-signer-set")
					x, y := s.Signers[i-1].ExternalAddress, m.ExternalAddress
					if x == y {
						w.Fail("C09", "members", "duplicate", fmt.Sprintf("%s: signer set %d lists %s twice", ch, s.Nonce, x))
						return
					}
					if o.tieOrder[ch+"|"+y+"|"+x] {
						w.Fail("C09", "order", "tie-break", fmt.Sprintf("%s: %s and %s with equal power were published in both orders", ch, x, y))
						return
					}
					o.tieOrder[ch+"|"+x+"|"+y] = true
				}
				prevP = m.Power
			}
			if sum > u32max {
				w.Fail("C09", "powers", "total", fmt.Sprintf("%s: signer set %d has total power %d > 2^32-1", ch, s.Nonce, sum))
				return
			}
		}
		if t.Cur.SSNonce[ch] != expNonce {
			w.Fail("C09", "nonce", "counter", fmt.Sprintf("%s: signer-set nonce counter is %d, published sets imply %d", ch, t.Cur.SSNonce[ch], expNonce))
			return
		}
		// freshness: latest published set vs the current validator set, at most 5 % of normalised power apart
		latest := t.Cur.SSets[ch][t.Cur.SSNonce[ch]]
		if latest == nil {
			// (not judged once Byzantine validators hold a quorum: a false "signer set N executed" with N above the
			// hub's own latest nonce makes the pruning rule - nonce below the last observed one - remove the latest set)
			if t.Cur.SSNonce[ch] > 0 && len(cur) > 0 && !w.Tainted {
				// a set was published under this nonce and the hub no longer holds it: there is no latest published
				// set for the current validators to be within 5 % of (relayers and signers are told "not found")
				w.Fail("C09", "fresh-5pct", "latest-missing:"+ch, fmt.Sprintf("%s: after BeginBlock of height %d the latest published signer set (nonce %d) is not in the store any more, while %d bonded validators hold a key for the chain", ch, h, t.Cur.SSNonce[ch], len(cur)))
				return
			}
			continue
		}
		w.St.Check("C09:fresh-5pct")
		pub := map[[20]byte]int64{}
		for _, m := range latest.Signers {
			pub[parse20(m.ExternalAddress)] += int64(m.Power)
		}
		var delta int64
		seen := map[[20]byte]bool{}
		for _, m := range cur {
			now := new(big.Int).Quo(new(big.Int).Mul(big.NewInt(m.stake), big.NewInt(u32max)), big.NewInt(tot)).Int64()
			d := now - pub[m.addr]
			if d < 0 {
				d = -d
			}
			delta += d
			seen[m.addr] = true
		}
		for a, p := range pub {
			if !seen[a] {
				delta += p
			}
		}
		if delta > 214748364 { // 5 % of 2^32
			w.Fail("C09", "fresh-5pct", ch, fmt.Sprintf("%s: after BeginBlock the latest published signer set (nonce %d) differs from the current validator set by %d normalised power units (> 5%%)", ch, latest.Nonce, delta))
			return
		}
		if delta > 0 {
			w.St.Probe("power-drift-below-5pct")
		}
	}
}

func parse20(s string) [20]byte {
	var a [20]byte
	if len(s) >= 2 && (s[:2] == "0x" || s[:2] == "0X") {
		s = s[2:]
	}
	b, _ := hex.DecodeString(s)
	if len(b) > 20 {
		b = b[len(b)-20:]
	}
	copy(a[20-len(b):], b)
	return a
}

// canonEvent: member lists are sets (the hub stores them sorted by power, whatever order was reported).
func canonEvent(ev mhub2types.ExternalEvent) mhub2types.ExternalEvent {
	s, ok := ev.(*mhub2types.SignerSetTxExecutedEvent)
	if !ok {
		return ev
	}
	c := *s
	c.Members = nil
	for _, m := range s.Members {
		mm := *m
		mm.ExternalAddress = strings.ToLower(mm.ExternalAddress)
		c.Members = append(c.Members, &mm)
	}
	sort.SliceStable(c.Members, func(i, j int) bool { return c.Members[i].ExternalAddress < c.Members[j].ExternalAddress })
	return &c
}
