// Package hub drives the REAL mhub2 application (app.NewMhub2App: baseapp, ante
// handler, auth, bank, staking, slashing, distribution, mint, gov, params,
// x/mhub2, x/oracle) in-process through ABCI on a tm-db MemDB.  Nothing here
// re-implements hub logic; it only builds genesis, signs txs, feeds blocks and
// gives read access to the (cache-wrapped) block state and the committed state.
package hub

import (
	"fmt"
	"os"
	"runtime"
	"runtime/debug"
	"strings"
	"sync"
	"time"

	"github.com/MinterTeam/mhub2/module/app"
	"github.com/cosmos/cosmos-sdk/baseapp"
	sdk "github.com/cosmos/cosmos-sdk/types"
	"github.com/gogo/protobuf/proto"
	abci "github.com/tendermint/tendermint/abci/types"
	"github.com/tendermint/tendermint/libs/log"
	tmproto "github.com/tendermint/tendermint/proto/tendermint/types"
	dbm "github.com/tendermint/tm-db"
)

var setupOnce sync.Once

// Setup seals the bech32 configuration exactly as the mhub2 binary does.
func Setup() { setupOnce.Do(app.SetAddressConfig) }

type emptyOpts struct{}

func (emptyOpts) Get(string) interface{} { return nil }

// Crash describes an ABCI call that did not return normally.
type Crash struct {
	Call     string // BeginBlock / EndBlock / DeliverTx / Commit / InitChain
	Kind     string // "panic" or "deadlock"
	Value    string // panic value or deadlock description
	Frames   []string
	FullDump string
}

func (c *Crash) Error() string {
	return fmt.Sprintf("%s in %s: %s @ %s", c.Kind, c.Call, c.Value, strings.Join(c.Frames, " <- "))
}

// Site is a short, stable identifier of where the crash happened.
func (c *Crash) Site() string {
	if len(c.Frames) > 0 {
		return c.Frames[0]
	}
	return "unknown"
}

// Node is one replica of the hub state machine.
type Node struct {
	App     *app.Mhub2
	DB      dbm.DB
	Home    string
	ChainID string

	Header  tmproto.Header // header of the block being executed (valid between BeginBlock and Commit)
	InBlock bool
	Height  int64 // last committed height
	AppHash []byte

	// WatchdogSeconds bounds every ABCI call in wall-clock time; only reached on a real hang.
	WatchdogSeconds int
	Dead            bool // a hung call leaves the app unusable
}

var homeCounter int
var homeMu sync.Mutex

func newApp(db dbm.DB, home string) *app.Mhub2 {
	var lg log.Logger = log.NewNopLogger()
	if os.Getenv("MHUBSIM_HUBLOG") != "" { // debugging aid: the hub's own error log on stderr
		lg = log.NewFilter(log.NewTMLogger(log.NewSyncWriter(os.Stderr)), log.AllowError())
	}
	return app.NewMhub2App(lg, db, nil, true, map[int64]bool{}, home, 0,
		app.MakeEncodingConfig(), emptyOpts{}, baseapp.SetMinGasPrices(""), baseapp.SetTrace(os.Getenv("MHUBSIM_HUBLOG") != ""))
}

// NewNode creates a fresh replica on an empty MemDB.
func NewNode(chainID string) *Node {
	Setup()
	homeMu.Lock()
	homeCounter++
	home := fmt.Sprintf("%s/mhubsim-home-%d-%d", os.TempDir(), os.Getpid(), homeCounter)
	homeMu.Unlock()
	db := dbm.NewMemDB()
	return &Node{App: newApp(db, home), DB: db, Home: home, ChainID: chainID, WatchdogSeconds: 30}
}

// Restart models a process crash of the node: everything volatile is dropped and
// the application is rebuilt from what the DB holds (the last committed version).
func (n *Node) Restart() {
	n.App = newApp(n.DB, n.Home)
	n.InBlock = false
	n.Height = n.App.LastBlockHeight()
	n.AppHash = n.App.LastCommitID().Hash
}

var repoFramePrefix = "github.com/MinterTeam/mhub2/"

func framesFromStack(stack string) []string {
	var out []string
	for _, line := range strings.Split(stack, "\n") {
		line = strings.TrimSpace(line)
		if strings.HasPrefix(line, repoFramePrefix) {
			// function line e.g. github.com/MinterTeam/mhub2/module/x/mhub2/keeper.Keeper.batchTxExecuted(...)
			fn := line
			if i := strings.Index(fn, "("); i > 0 {
				// keep receiver in parens form "(*T).m": find last "(" that starts args
				if j := strings.LastIndex(fn, "("); j > 0 {
					fn = fn[:j]
				}
			}
			fn = strings.TrimPrefix(fn, repoFramePrefix)
			out = append(out, fn)
			if len(out) >= 6 {
				break
			}
		}
	}
	return out
}

// guarded runs f under a panic handler and a wall-clock watchdog.
func (n *Node) guarded(call string, f func()) (crash *Crash) {
	if n.Dead {
		return &Crash{Call: call, Kind: "dead", Value: "node unusable after an earlier hang"}
	}
	done := make(chan *Crash, 1)
	var gid = make(chan struct{})
	go func() {
		close(gid)
		defer func() {
			if r := recover(); r != nil {
				st := string(debug.Stack())
				done <- &Crash{Call: call, Kind: "panic", Value: fmt.Sprint(r), Frames: framesFromStack(st), FullDump: st}
				return
			}
			done <- nil
		}()
		f()
	}()
	<-gid
	timer := time.NewTimer(time.Duration(n.WatchdogSeconds) * time.Second)
	defer timer.Stop()
	select {
	case c := <-done:
		return c
	case <-timer.C:
		// two dumps a second apart; a deadlock shows the same parked frames in both
		d1 := allStacks()
		time.Sleep(time.Second)
		select {
		case c := <-done:
			return c
		default:
		}
		d2 := allStacks()
		n.Dead = true
		sig, frames := deadlockSignature(d1, d2)
		return &Crash{Call: call, Kind: "deadlock", Value: sig, Frames: frames, FullDump: d2}
	}
}

func allStacks() string {
	buf := make([]byte, 1<<22)
	m := runtime.Stack(buf, true)
	return string(buf[:m])
}

// deadlockSignature finds a goroutine that is parked on a lock/chan below cachekv/memdb frames
// with repo frames above it, present in both dumps.
func deadlockSignature(d1, d2 string) (string, []string) {
	find := func(d string) (string, []string) {
		for _, g := range strings.Split(d, "\n\n") {
			if !strings.Contains(g, repoFramePrefix+"module/x/") {
				continue
			}
			if strings.Contains(g, "sync.(*RWMutex).Lock") || strings.Contains(g, "semacquire") || strings.Contains(g, "chan send") || strings.Contains(g, "chan receive") || strings.Contains(g, "select") {
				where := "blocked"
				switch {
				case strings.Contains(g, "cachekv") && strings.Contains(g, "memdb"):
					where = "parked in sync.RWMutex.Lock below cachekv/memdb"
				case strings.Contains(g, "cachekv"):
					where = "parked below cachekv"
				}
				return where, framesFromStack(g)
			}
		}
		return "", nil
	}
	s1, f1 := find(d1)
	s2, f2 := find(d2)
	if s1 != "" && s1 == s2 && strings.Join(f1, "|") == strings.Join(f2, "|") {
		return s2, f2
	}
	if s2 != "" {
		return s2 + " (moving)", f2
	}
	// not parked anywhere: a goroutine that is still executing module code in both dumps never returns either
	// (an endless loop is as fatal to block production as a deadlock)
	busy := func(d string) []string {
		for _, g := range strings.Split(d, "\n\n") {
			if strings.Contains(g, repoFramePrefix+"module/x/") && strings.Contains(g, "hub.(*Node).guarded") {
				return framesFromStack(g)
			}
		}
		return nil
	}
	if b1, b2 := busy(d1), busy(d2); len(b1) > 0 && len(b2) > 0 {
		return "still running inside the module when the watchdog fired (no return)", b2
	}
	return "call did not return within watchdog", nil
}

// InitChain initialises the chain from a genesis app state.
func (n *Node) InitChain(appState []byte, genTime time.Time, initialHeight int64) *Crash {
	return n.guarded("InitChain", func() {
		n.App.InitChain(abci.RequestInitChain{
			Time:            genTime,
			ChainId:         n.ChainID,
			ConsensusParams: DefaultConsensusParams,
			Validators:      []abci.ValidatorUpdate{},
			AppStateBytes:   appState,
			InitialHeight:   initialHeight,
		})
		if initialHeight > 1 {
			n.Height = initialHeight - 1
		}
	})
}

var DefaultConsensusParams = &abci.ConsensusParams{
	Block:     &abci.BlockParams{MaxBytes: 20000000, MaxGas: -1},
	Evidence:  &tmproto.EvidenceParams{MaxAgeNumBlocks: 302400, MaxAgeDuration: 504 * time.Hour, MaxBytes: 10000},
	Validator: &tmproto.ValidatorParams{PubKeyTypes: []string{"ed25519"}},
}

// BeginBlock starts block Height+1 at the given time; votes says which validators "signed" the previous block.
func (n *Node) BeginBlock(t time.Time, votes []abci.VoteInfo, proposer []byte) (resp abci.ResponseBeginBlock, crash *Crash) {
	h := n.Height + 1
	n.Header = tmproto.Header{ChainID: n.ChainID, Height: h, Time: t, ProposerAddress: proposer, AppHash: n.AppHash}
	crash = n.guarded("BeginBlock", func() {
		resp = n.App.BeginBlock(abci.RequestBeginBlock{Header: n.Header, LastCommitInfo: abci.LastCommitInfo{Votes: votes}})
	})
	n.InBlock = crash == nil
	return
}

func (n *Node) DeliverTx(tx []byte) (resp abci.ResponseDeliverTx, crash *Crash) {
	crash = n.guarded("DeliverTx", func() { resp = n.App.DeliverTx(abci.RequestDeliverTx{Tx: tx}) })
	return
}

func (n *Node) EndBlock() (resp abci.ResponseEndBlock, crash *Crash) {
	crash = n.guarded("EndBlock", func() { resp = n.App.EndBlock(abci.RequestEndBlock{Height: n.Header.Height}) })
	return
}

func (n *Node) Commit() (hash []byte, crash *Crash) {
	crash = n.guarded("Commit", func() {
		r := n.App.Commit()
		hash = r.Data
	})
	if crash == nil {
		n.Height = n.Header.Height
		n.AppHash = hash
		n.InBlock = false
	}
	return
}

// Ctx returns a context on the live block state (deliver state, cache-wrapped) while a block is
// open, and on the last committed state otherwise. Reads only.
func (n *Node) Ctx() sdk.Context {
	if n.InBlock {
		return n.App.BaseApp.NewContext(false, n.Header)
	}
	hdr := n.Header
	if hdr.Height == 0 {
		hdr = tmproto.Header{ChainID: n.ChainID, Height: n.Height}
	}
	return n.App.BaseApp.NewContext(true, hdr)
}

// Store returns the KV store of a module (e.g. "mhub2", "oracle", "bank", "staking") in Ctx().
func (n *Node) Store(name string) sdk.KVStore { return n.Ctx().KVStore(n.App.GetKey(name)) }

// Query runs a gRPC query against the last committed state.
func (n *Node) Query(path string, req proto.Message, resp proto.Message) error {
	bz, err := proto.Marshal(req)
	if err != nil {
		return err
	}
	var r abci.ResponseQuery
	var perr error
	func() {
		defer func() {
			if x := recover(); x != nil {
				perr = fmt.Errorf("query panic: %v", x)
			}
		}()
		r = n.App.Query(abci.RequestQuery{Path: path, Data: bz})
	}()
	if perr != nil {
		return perr
	}
	if r.Code != 0 {
		return fmt.Errorf("query %s: code %d: %s", path, r.Code, r.Log)
	}
	return proto.Unmarshal(r.Value, resp)
}
