package hub

import (
	"fmt"

	"github.com/MinterTeam/mhub2/module/app"
	"github.com/cosmos/cosmos-sdk/client"
	sdk "github.com/cosmos/cosmos-sdk/types"
	"github.com/cosmos/cosmos-sdk/types/tx/signing"
	authsigning "github.com/cosmos/cosmos-sdk/x/auth/signing"
	authtypes "github.com/cosmos/cosmos-sdk/x/auth/types"
)

var encCfg = app.MakeEncodingConfig()

func TxConfig() client.TxConfig { return encCfg.TxConfig }

// AccountInfo reads account number and sequence from the last committed state (what a client sees).
func (n *Node) AccountInfo(addr sdk.AccAddress) (num, seq uint64, ok bool) {
	var resp authtypes.QueryAccountResponse
	if err := n.Query("/cosmos.auth.v1beta1.Query/Account", &authtypes.QueryAccountRequest{Address: addr.String()}, &resp); err != nil {
		return 0, 0, false
	}
	var acc authtypes.AccountI
	if err := encCfg.InterfaceRegistry.UnpackAny(resp.Account, &acc); err != nil {
		return 0, 0, false
	}
	return acc.GetAccountNumber(), acc.GetSequence(), true
}

// SignTx builds a SIGN_MODE_DIRECT tx carrying msgs, signed by signer with the given number/sequence.
func SignTx(chainID string, signer *Account, accNum, seq uint64, memo string, msgs ...sdk.Msg) ([]byte, error) {
	return SignTxGas(chainID, signer, accNum, seq, memo, 1_000_000_000, msgs...)
}

// SignTxGas is SignTx with an explicit gas limit (a transaction may run out of gas at any point of its execution).
func SignTxGas(chainID string, signer *Account, accNum, seq uint64, memo string, gas uint64, msgs ...sdk.Msg) ([]byte, error) {
	b := encCfg.TxConfig.NewTxBuilder()
	if err := b.SetMsgs(msgs...); err != nil {
		return nil, err
	}
	b.SetMemo(memo)
	b.SetGasLimit(gas)
	b.SetFeeAmount(sdk.NewCoins())
	sig := signing.SignatureV2{
		PubKey:   signer.Priv.PubKey(),
		Data:     &signing.SingleSignatureData{SignMode: signing.SignMode_SIGN_MODE_DIRECT},
		Sequence: seq,
	}
	if err := b.SetSignatures(sig); err != nil {
		return nil, err
	}
	signBytes, err := encCfg.TxConfig.SignModeHandler().GetSignBytes(signing.SignMode_SIGN_MODE_DIRECT,
		authsigning.SignerData{ChainID: chainID, AccountNumber: accNum, Sequence: seq}, b.GetTx())
	if err != nil {
		return nil, err
	}
	sb, err := signer.Priv.Sign(signBytes)
	if err != nil {
		return nil, err
	}
	sig.Data = &signing.SingleSignatureData{SignMode: signing.SignMode_SIGN_MODE_DIRECT, Signature: sb}
	if err := b.SetSignatures(sig); err != nil {
		return nil, err
	}
	bz, err := encCfg.TxConfig.TxEncoder()(b.GetTx())
	if err != nil {
		return nil, fmt.Errorf("encode tx: %w", err)
	}
	return bz, nil
}

// DecodeAccount decodes a raw auth-store account value.
func DecodeAccount(bz []byte) (authtypes.AccountI, error) {
	var acc authtypes.AccountI
	err := encCfg.Marshaler.UnmarshalInterface(bz, &acc)
	return acc, err
}
