package sim

import (
	"crypto/sha256"
	"fmt"
	"math/big"
	"sort"
	"strconv"
	"strings"
	"time"

	"mhubsim/ext"

	mhub2types "github.com/MinterTeam/mhub2/module/x/mhub2/types"
	sdk "github.com/cosmos/cosmos-sdk/types"
)

func txHashOf(bz []byte) string { return fmt.Sprintf("%x", sha256.Sum256(bz)) }

// appliedExec lists batch executions applied in this block.
func appliedExec(t *Tracker) []*mhub2types.BatchExecutedEvent {
	var out []*mhub2types.BatchExecutedEvent
	for _, a := range t.Applied {
		if e, ok := a.Event.(*mhub2types.BatchExecutedEvent); ok {
			out = append(out, e)
		}
	}
	return out
}

func appliedExecOn(t *Tracker, chain string) []*mhub2types.BatchExecutedEvent {
	var out []*mhub2types.BatchExecutedEvent
	for _, a := range t.Applied {
		if e, ok := a.Event.(*mhub2types.BatchExecutedEvent); ok && a.Chain == chain {
			out = append(out, e)
		}
	}
	return out
}

// expired: the timeout runs from the moment the transfer was created (as first observed; the hub's own record
// of that moment is not trusted to stay what it was).
func expired(w *World, e *mhub2types.SendToExternal, now time.Time) bool {
	created := e.CreatedAt
	if c, ok := w.createdAt[e.ChainId+"/"+strconv.FormatUint(e.Id, 10)]; ok && c < created {
		created = c
	}
	return time.Unix(int64(created), 0).Add(time.Duration(w.Cfg.OutgoingTxTimeoutMs) * time.Millisecond).Before(now)
}

// ------------------------------------------------------------------------------------------------
// C04 — an outgoing transfer is in exactly one place at any time.
type C04 struct {
	refundedSeen map[string]bool
	hashIDs      map[string]map[string]bool // inbound hash -> transfers (chain/id) ever seen carrying it
	BaseOracle
	extDone       map[string]string // chain/id -> batch key under which the external chain executed the transfer
	maxID         map[string]uint64
	terminal      map[string]string // chain/id -> "refunded" | "executed"
	userTx        map[string]string // chain/id -> tx hash of the user's MsgSendToExternal
	pendingCancel map[string]bool
	pendingBatch  *mhub2types.BatchTx
	execEvent     map[string]uint64 // chain/batch key -> nonce of the external event that reports its execution
	minterExecs   []string          // batch keys in the order the Minter multisig executed them
	minterSeen    int               // how many of them have been matched with their event
}

func (*C04) Property() string { return "C04" }

// PreExtCall/OnExtCall: remember which transfers the external chain has really executed.
func (o *C04) PreExtCall(w *World, c *ExtCall, ss *mhub2types.SignerSetTx, b *mhub2types.BatchTx, cc *mhub2types.ContractCallTx, sigs []ext.Sig) {
	o.pendingBatch = b
}
func (o *C04) PreMinterCall(w *World, c *ExtCall, tx *ext.MTx, sigs [][]byte) { o.pendingBatch = nil }
func (o *C04) OnExtCall(w *World, c *ExtCall) {
	if c.Kind == "batch" && c.Err == nil {
		b := o.pendingBatch
		if b == nil && c.Chain == "minter" {
			b = w.T().Cur.Batches["minter"][bkey(c.Info["token"], mustUint(c.Info["nonce"]))]
		}
		if b != nil {
			for _, tx := range b.Transactions {
				o.extDone[c.Chain+"/"+strconv.FormatUint(tx.Id, 10)] = bkey(b.ExternalTokenId, b.BatchNonce)
			}
			if o.execEvent == nil {
				o.execEvent = map[string]uint64{}
			}
			if c.Chain == "minter" {
				// the multisig executes one transaction after the other: the n-th executed batch is the n-th batch event,
				// whose nonce is known once the Minter chain has put it into a block
				o.minterExecs = append(o.minterExecs, bkey(b.ExternalTokenId, b.BatchNonce))
			} else {
				// the execution is the event the contract has just emitted
				o.execEvent[c.Chain+"/"+bkey(b.ExternalTokenId, b.BatchNonce)] = w.lastExtNonce(c.Chain)
			}
		}
	}
	o.pendingBatch = nil
}

func (o *C04) Init(w *World) {
	o.extDone = map[string]string{}
	o.maxID = map[string]uint64{}
	o.terminal = map[string]string{}
	o.userTx = map[string]string{}
}

// noteHashes remembers, at every observation point, which transfers carry which inbound hash.
func (o *C04) noteHashes(s *Snap) {
	if o.hashIDs == nil {
		o.hashIDs = map[string]map[string]bool{}
	}
	for _, ch := range Chains {
		note := func(e *mhub2types.SendToExternal) {
			if e.TxHash == "" || strings.HasPrefix(e.TxHash, "#") {
				return
			}
			if o.hashIDs[e.TxHash] == nil {
				o.hashIDs[e.TxHash] = map[string]bool{}
			}
			o.hashIDs[e.TxHash][ch+"/"+strconv.FormatUint(e.Id, 10)] = true
		}
		for _, e := range s.Pool[ch] {
			note(e)
		}
		for _, b := range s.Batches[ch] {
			for _, e := range b.Transactions {
				note(e)
			}
		}
	}
}

func (o *C04) place(w *World, s *Snap, at string) bool {
	o.noteHashes(s)
	for _, ch := range Chains {
		w.St.Check("C04:one-place")
		if len(s.PoolDup[ch]) > 0 {
			w.Fail("C04", "one-place", "pool-duplicate", fmt.Sprintf("%s: transfer ids %v are indexed more than once in the pool (at %s)", ch, s.PoolDup[ch], at))
			return false
		}
		for _, k := range sortedKeys(o.extDone) {
			if !strings.HasPrefix(k, ch+"/") {
				continue
			}
			id, _ := strconv.ParseUint(k[len(ch)+1:], 10, 64)
			if _, inPool := s.Pool[ch][id]; inPool {
				w.Fail("C04", "one-place", "executed-and-pooled", fmt.Sprintf("%s: transfer %d was paid out by the external chain (batch %s) and is in the unbatched pool again (at %s)", ch, id, o.extDone[k], at))
				return false
			}
			for _, bk := range s.InBatch[ch][id] {
				if bk != o.extDone[k] {
					w.Fail("C04", "one-place", "executed-and-rebatched", fmt.Sprintf("%s: transfer %d was paid out by the external chain (batch %s) and is pending in batch %s (at %s)", ch, id, o.extDone[k], bk, at))
					return false
				}
			}
		}
		// once the hub has worked through the external chain's events up to the one that reports an execution, the
		// executed batch is no longer pending
		if ch == "minter" && o.minterSeen < len(o.minterExecs) {
			i := 0
			for _, ev := range w.MinterEvents() {
				if ev.Kind != ext.MBatch {
					continue
				}
				if i >= o.minterSeen && i < len(o.minterExecs) {
					if o.execEvent == nil {
						o.execEvent = map[string]uint64{}
					}
					o.execEvent["minter/"+o.minterExecs[i]] = ev.EventNonce
					o.minterSeen = i + 1
				}
				i++
			}
		}
		if !w.Tainted {
			for _, k := range sortedKeys(o.execEvent) {
				if !strings.HasPrefix(k, ch+"/") {
					continue
				}
				bk := k[len(ch)+1:]
				if _, pending := s.Batches[ch][bk]; !pending {
					delete(o.execEvent, k)
					continue
				}
				if s.LastObs[ch] >= o.execEvent[k] && s.At == "C" {
					w.Fail("C04", "one-place", "executed-still-pending", fmt.Sprintf("%s: batch %s was executed by the external chain (its event %d); the hub has applied that chain's events up to %d and still holds the batch as pending", ch, bk, o.execEvent[k], s.LastObs[ch]))
					return false
				}
			}
		}
		for id, keys := range s.InBatch[ch] {
			if len(keys) > 1 {
				w.Fail("C04", "one-place", "two-batches", fmt.Sprintf("%s: transfer %d is in batches %v (at %s)", ch, id, keys, at))
				return false
			}
			if _, inPool := s.Pool[ch][id]; inPool {
				w.Fail("C04", "one-place", "pool-and-batch", fmt.Sprintf("%s: transfer %d is in the pool and in batch %v (at %s)", ch, id, keys, at))
				return false
			}
		}
		if s.SendID[ch] < o.maxID[ch] {
			w.Fail("C04", "id-unique", "counter-back", fmt.Sprintf("%s: transfer id counter went back to %d (max issued %d)", ch, s.SendID[ch], o.maxID[ch]))
			return false
		}
		var ids []uint64
		for id := range s.Pool[ch] {
			ids = append(ids, id)
		}
		for id := range s.InBatch[ch] {
			ids = append(ids, id)
		}
		for _, id := range ids {
			if id > s.SendID[ch] {
				w.Fail("C04", "id-unique", "beyond-counter", fmt.Sprintf("%s: transfer %d exists but the id counter is %d", ch, id, s.SendID[ch]))
				return false
			}
			if st, gone := o.terminal[ch+"/"+strconv.FormatUint(id, 10)]; gone {
				w.Fail("C04", "one-place", "resurrected", fmt.Sprintf("%s: transfer %d is pending again after it was %s (at %s)", ch, id, st, at))
				return false
			}
		}
		if s.SendID[ch] > o.maxID[ch] {
			o.maxID[ch] = s.SendID[ch]
		}
	}
	return true
}

// vanished returns ids present in prev but nowhere in cur.
func vanished(prev, cur *Snap, ch string) []uint64 {
	var out []uint64
	chk := func(id uint64) {
		if _, ok := cur.Pool[ch][id]; ok {
			return
		}
		if _, ok := cur.InBatch[ch][id]; ok {
			return
		}
		out = append(out, id)
	}
	for id := range prev.Pool[ch] {
		chk(id)
	}
	for id := range prev.InBatch[ch] {
		chk(id)
	}
	sort.Slice(out, func(i, j int) bool { return out[i] < out[j] })
	return out
}

func (o *C04) AfterBegin(w *World) {
	t := w.T()
	if !o.place(w, t.Cur, "A") {
		return
	}
	for _, ch := range Chains {
		if v := vanished(t.Prev, t.Cur, ch); len(v) > 0 {
			w.Fail("C04", "explained-exit", "begin-block", fmt.Sprintf("%s: transfers %v disappeared during BeginBlock", ch, v))
			return
		}
	}
}

func (o *C04) AfterTx(w *World, r *TxResult) {
	t := w.T()
	if !o.place(w, t.Cur, "B") {
		return
	}
	if r.Tx.Kind == "user_send" && r.Code == 0 {
		w.St.Probe("nontrivial")
	}
	// the status query is keyed by the hub transaction: it speaks for a transfer only when the transaction
	// created exactly one
	if r.Tx.Kind == "user_send" && r.Code == 0 && (r.Tx.Meta["n"] == "1" || r.Tx.Meta["n"] == "") {
		ch := r.Tx.Meta["chain"]
		// the new id is the one that was not there before
		for id := range t.Cur.Pool[ch] {
			if _, old := t.Prev.Pool[ch][id]; !old {
				if _, oldb := t.Prev.InBatch[ch][id]; !oldb {
					o.userTx[ch+"/"+strconv.FormatUint(id, 10)] = txHashOf(r.Tx.Bytes)
				}
			}
		}
	}
	for _, ch := range Chains {
		v := vanished(t.Prev, t.Cur, ch)
		if len(v) == 0 {
			continue
		}
		w.St.Check("C04:explained-exit")
		ok := r.Tx.Kind == "user_cancel" && r.Code == 0 && r.Tx.Meta["chain"] == ch && len(v) == 1 && strconv.FormatUint(v[0], 10) == r.Tx.Meta["id"]
		if !ok {
			w.Fail("C04", "explained-exit", "tx:"+r.Tx.Kind, fmt.Sprintf("%s: transfers %v disappeared while delivering a %s tx (code %d)", ch, v, r.Tx.Kind, r.Code))
			return
		}
		o.terminal[ch+"/"+strconv.FormatUint(v[0], 10)] = "refunded"
	}
}

func (o *C04) AfterEnd(w *World) {
	t := w.T()
	if !o.place(w, t.Cur, "C") {
		return
	}
	for _, ch := range Chains {
		v := vanished(t.PreEnd, t.Cur, ch)
		if len(v) == 0 {
			continue
		}
		execs := appliedExecOn(t, ch)
		for _, id := range v {
			w.St.Check("C04:explained-exit")
			key := ch + "/" + strconv.FormatUint(id, 10)
			if e, inPool := t.PreEnd.Pool[ch][id]; inPool {
				if expired(w, e, t.Cur.Time) {
					o.terminal[key] = "refunded"
					w.St.Probe("expiry-refund")
					continue
				}
				// a transfer re-pooled and expired within the same EndBlock cannot happen: re-pooling is BeginBlock/apply
				w.Fail("C04", "explained-exit", "end-block-pool", fmt.Sprintf("%s: unexpired pool transfer %d disappeared during EndBlock", ch, id))
				return
			}
			bks := t.PreEnd.InBatch[ch][id]
			explained := false
			for _, bk := range bks {
				b := t.PreEnd.Batches[ch][bk]
				for _, e := range execs {
					if e.ExternalCoinId == b.ExternalTokenId && e.BatchNonce == b.BatchNonce {
						explained = true
						o.terminal[key] = "executed"
					}
				}
				if !explained {
					// its batch was cancelled by an execution of a newer batch and the re-pooled transfer expired at once
					for _, tx := range b.Transactions {
						if tx.Id == id && expired(w, tx, t.Cur.Time) {
							explained = true
							o.terminal[key] = "refunded"
						}
					}
				}
			}
			if !explained {
				w.Fail("C04", "explained-exit", "end-block-batch", fmt.Sprintf("%s: batched transfer %d disappeared during EndBlock without an applied execution of its batch", ch, id))
				return
			}
		}
	}
}

func (o *C04) AfterCommit(w *World) {
	// user-visible status follows the lifecycle; 'refunded' is final
	t := w.T()
	// 'refunded' is final for every hash the hub ever reported as refunded (also for a hash shared by the
	// several transfers of one hub transaction or one external transaction)
	if o.refundedSeen == nil {
		o.refundedSeen = map[string]bool{}
	}
	all := w.ReadState().AllTxStatuses()
	for _, h := range sortedKeys(all) {
		if all[h] == mhub2types.TX_STATUS_REFUNDED {
			if !o.refundedSeen[h] {
				w.St.Probe("status-refunded-seen")
			}
			o.refundedSeen[h] = true
		}
	}
	// a transfer reported as refunded is nowhere else: while its hash speaks for it alone it must not sit in
	// the pool or in a batch any more
	if o.hashIDs == nil {
		o.hashIDs = map[string]map[string]bool{}
	}
	type where struct{ key, place string }
	pending := map[string][]where{}
	for _, ch := range Chains {
		note := func(e *mhub2types.SendToExternal, place string) {
			if e.TxHash == "" || strings.HasPrefix(e.TxHash, "#") {
				return
			}
			k := ch + "/" + strconv.FormatUint(e.Id, 10)
			if o.hashIDs[e.TxHash] == nil {
				o.hashIDs[e.TxHash] = map[string]bool{}
			}
			o.hashIDs[e.TxHash][k] = true
			pending[e.TxHash] = append(pending[e.TxHash], where{k, place})
		}
		for _, e := range t.Cur.Pool[ch] {
			note(e, "the pool")
		}
		for _, b := range t.Cur.Batches[ch] {
			for _, e := range b.Transactions {
				note(e, "a batch")
			}
		}
	}
	for _, h := range sortedKeys(pending) {
		if all[h] == mhub2types.TX_STATUS_REFUNDED && len(o.hashIDs[h]) == 1 {
			w.St.Check("C04:refunded-is-gone")
			w.Fail("C04", "one-place", "refunded-and-pending", fmt.Sprintf("transfer %s (hash %s) is reported REFUNDED and is still in %s", pending[h][0].key, h, pending[h][0].place))
			return
		}
	}
	for _, h := range sortedKeys(o.refundedSeen) {
		w.St.Check("C04:refunded-final")
		if got, ok := all[h]; !ok || got != mhub2types.TX_STATUS_REFUNDED {
			w.Fail("C04", "status-lifecycle", "refunded-final", fmt.Sprintf("the status of %s was REFUNDED and now reads %s", h, got))
			return
		}
	}
	n := 0
	for _, key := range sortedKeys(o.userTx) {
		if n > 40 {
			break
		}
		n++
		hash := o.userTx[key]
		var resp mhub2types.TransactionStatusResponse
		if err := w.N().Query("/mhub2.v1.Query/TransactionStatus", &mhub2types.TransactionStatusRequest{TxHash: hash}, &resp); err != nil || resp.Status == nil {
			continue
		}
		w.St.Check("C04:status-lifecycle")
		var ch string
		var id uint64
		fmt.Sscanf(key, "%[^/]/%d", &ch, &id)
		for i := range key {
			if key[i] == '/' {
				ch = key[:i]
				id, _ = strconv.ParseUint(key[i+1:], 10, 64)
			}
		}
		got := resp.Status.Status
		term := o.terminal[key]
		_, inPool := t.Cur.Pool[ch][id]
		_, inBatch := t.Cur.InBatch[ch][id]
		switch {
		case term == "refunded" && got != mhub2types.TX_STATUS_REFUNDED:
			w.Fail("C04", "status-lifecycle", "refunded", fmt.Sprintf("%s transfer %d was refunded but its status reads %s", ch, id, got))
			return
		case term == "executed" && got != mhub2types.TX_STATUS_BATCH_EXECUTED:
			w.Fail("C04", "status-lifecycle", "executed", fmt.Sprintf("%s transfer %d was executed but its status reads %s", ch, id, got))
			return
		case term == "" && inBatch && got != mhub2types.TX_STATUS_BATCH_CREATED:
			w.Fail("C04", "status-lifecycle", "batched", fmt.Sprintf("%s transfer %d is in a batch but its status reads %s", ch, id, got))
			return
		case term == "" && inPool && (got == mhub2types.TX_STATUS_REFUNDED || got == mhub2types.TX_STATUS_BATCH_EXECUTED):
			w.Fail("C04", "status-lifecycle", "pending", fmt.Sprintf("%s transfer %d is still in the pool but its status reads %s", ch, id, got))
			return
		}
	}
}

// ------------------------------------------------------------------------------------------------
// C10 — batches are well formed.
type C10 struct{ BaseOracle }

func (*C10) Property() string { return "C10" }

func feeKey(e *mhub2types.SendToExternal) string { return e.Fee.Amount.String() }

func (o *C10) check(w *World, at string) {
	t := w.T()
	prev, cur := t.Prev, t.Cur
	if at == "C" {
		prev = t.PreEnd
	}
	for _, ch := range Chains {
		// transfers that were available for batching in this step: previous pool plus whatever cancelled batches returned
		avail := map[uint64]*mhub2types.SendToExternal{}
		for id, e := range prev.Pool[ch] {
			avail[id] = e
		}
		for k, b := range prev.Batches[ch] {
			if _, still := cur.Batches[ch][k]; !still {
				for _, tx := range b.Transactions {
					avail[tx.Id] = tx
				}
			}
		}
		if at == "B" {
			// a transfer created by this very tx is available too
			isNew := func(id uint64) bool {
				_, p := prev.Pool[ch][id]
				_, b := prev.InBatch[ch][id]
				return !p && !b
			}
			for id, e := range cur.Pool[ch] {
				if _, ok := avail[id]; !ok && isNew(id) {
					avail[id] = e
				}
			}
			for id, ks := range cur.InBatch[ch] {
				if _, ok := avail[id]; !ok && len(ks) > 0 && isNew(id) {
					for _, tx := range cur.Batches[ch][ks[0]].Transactions {
						if tx.Id == id {
							avail[id] = tx
						}
					}
				}
			}
		}
		var fresh []*mhub2types.BatchTx
		for k, b := range cur.Batches[ch] {
			if _, old := prev.Batches[ch][k]; !old {
				fresh = append(fresh, b)
			}
		}
		sort.SliceStable(fresh, func(i, j int) bool { return fresh[i].BatchNonce < fresh[j].BatchNonce })
		for _, b := range fresh {
			w.St.Check("C10:batch")
			w.St.Probe("nontrivial")
			site := at
			if len(b.Transactions) == 0 {
				w.Fail("C10", "non-empty", site, fmt.Sprintf("%s: batch %d for token %s offered for signing holds no transfer", ch, b.BatchNonce, b.ExternalTokenId))
				return
			}
			if len(b.Transactions) > 100 {
				w.Fail("C10", "cap", site, fmt.Sprintf("%s: batch %d holds %d transfers", ch, b.BatchNonce, len(b.Transactions)))
				return
			}
			if len(b.Transactions) == 100 {
				w.St.Probe("batch-of-100")
			}
			for _, tx := range b.Transactions {
				if tx.ChainId != ch || tx.Token.ExternalTokenId != b.ExternalTokenId {
					w.Fail("C10", "uniform", site, fmt.Sprintf("%s: batch %d for token %s holds transfer %d of token %s on %s", ch, b.BatchNonce, b.ExternalTokenId, tx.Id, tx.Token.ExternalTokenId, tx.ChainId))
					return
				}
			}
			// highest fees first: multiset of chosen fees == top-k fees of what was available for that token
			var fees []*big.Int
			for _, e := range avail {
				if e.Token.ExternalTokenId == b.ExternalTokenId {
					fees = append(fees, e.Fee.Amount.BigInt())
				}
			}
			sort.Slice(fees, func(i, j int) bool { return fees[i].Cmp(fees[j]) > 0 })
			k := len(fees)
			if k > 100 {
				k = 100
				w.St.Probe("more-than-100-available")
				if fees[0].BitLen() > 128 && fees[len(fees)-1].BitLen() <= 128 {
					w.St.Probe("cap-cuts-with-fees-beyond-2^128")
				}
			}
			var got []*big.Int
			for _, tx := range b.Transactions {
				got = append(got, tx.Fee.Amount.BigInt())
			}
			sort.Slice(got, func(i, j int) bool { return got[i].Cmp(got[j]) > 0 })
			bad := len(got) != k
			for i := 0; !bad && i < k; i++ {
				bad = got[i].Cmp(fees[i]) != 0
			}
			if bad {
				w.Fail("C10", "top-fees", site, fmt.Sprintf("%s: batch %d for token %s took %d transfers with fees %v; the %d highest available were %v", ch, b.BatchNonce, b.ExternalTokenId, len(got), short(got), k, short(fees[:k])))
				return
			}
			for _, tx := range b.Transactions {
				delete(avail, tx.Id)
			}
		}
		// nonces and sequences: unique, increasing, gap-free in creation order
		type otx struct {
			seq   uint64
			batch uint64
		}
		var news []otx
		for _, b := range fresh {
			news = append(news, otx{b.Sequence, b.BatchNonce})
		}
		for n, s := range cur.SSets[ch] {
			if _, old := prev.SSets[ch][n]; !old {
				news = append(news, otx{s.Sequence, 0})
			}
		}
		for _, c := range cur.Calls[ch] {
			isOld := false
			for _, p := range prev.Calls[ch] {
				if p.Sequence == c.Sequence {
					isOld = true
				}
			}
			if !isOld {
				news = append(news, otx{c.Sequence, 0})
			}
		}
		sort.Slice(news, func(i, j int) bool { return news[i].seq < news[j].seq })
		expSeq, expB := prev.Seq[ch], prev.BNonce[ch]
		for _, x := range news {
			w.St.Check("C10:gap-free")
			expSeq++
			if x.seq != expSeq {
				w.Fail("C10", "gap-free", "sequence", fmt.Sprintf("%s: new outgoing tx has sequence %d, expected %d", ch, x.seq, expSeq))
				return
			}
			if x.batch != 0 {
				expB++
				if x.batch != expB {
					w.Fail("C10", "gap-free", "batch-nonce", fmt.Sprintf("%s: new batch has nonce %d, expected %d", ch, x.batch, expB))
					return
				}
			}
		}
		if cur.Seq[ch] != expSeq || cur.BNonce[ch] != expB {
			w.Fail("C10", "gap-free", "counters", fmt.Sprintf("%s: counters sequence=%d batch=%d, but created txs imply %d / %d", ch, cur.Seq[ch], cur.BNonce[ch], expSeq, expB))
			return
		}
	}
}

func short(v []*big.Int) []string {
	var out []string
	for i, x := range v {
		if i >= 8 {
			out = append(out, "…")
			break
		}
		out = append(out, x.String())
	}
	return out
}

func (o *C10) AfterBegin(w *World)           { o.check(w, "A") }
func (o *C10) AfterTx(w *World, r *TxResult) { o.check(w, "B") }
func (o *C10) AfterEnd(w *World)             { o.check(w, "C") }

// ------------------------------------------------------------------------------------------------
// C13 — batches are invalidated only when they can no longer execute.
type C13 struct{ BaseOracle }

func (*C13) Property() string { return "C13" }

func (w *World) modelCanExecute(ch string, b *mhub2types.BatchTx) bool {
	e := w.Eth[ch]
	if e == nil {
		return false
	}
	return e.Height < b.Timeout && e.LastBatchNonce[ext.ParseAddr(b.ExternalTokenId)] < b.BatchNonce
}

func (o *C13) gone(w *World, prev, cur *Snap, at string) {
	if w.Tainted {
		return
	}
	t := w.T()
	for _, ch := range Chains {
		execs := appliedExecOn(t, ch)
		for k, b := range prev.Batches[ch] {
			if _, still := cur.Batches[ch][k]; still {
				continue
			}
			executed := false
			if at == "C" {
				for _, e := range execs {
					if e.ExternalCoinId == b.ExternalTokenId && e.BatchNonce == b.BatchNonce {
						executed = true
					}
				}
			}
			w.St.Check("C13:batch-left")
			w.St.Probe("nontrivial")
			if executed {
				// exactly that batch: its transfers are gone, not re-pooled
				for _, tx := range b.Transactions {
					if _, inPool := cur.Pool[ch][tx.Id]; inPool {
						w.Fail("C13", "exact-repool", "executed-repooled", fmt.Sprintf("%s: transfer %d of executed batch %d is back in the pool", ch, tx.Id, b.BatchNonce))
						return
					}
				}
				continue
			}
			if ch == "minter" {
				w.Fail("C13", "never-minter", at, fmt.Sprintf("minter batch %d (token %s) was withdrawn by the hub", b.BatchNonce, b.ExternalTokenId))
				return
			}
			if w.modelCanExecute(ch, b) {
				e := w.Eth[ch]
				w.Fail("C13", "dead-before-cancel", at, fmt.Sprintf("%s: batch %d (token %s, timeout %d) was withdrawn while the contract could still execute it (height %d, last executed nonce %d)",
					ch, b.BatchNonce, b.ExternalTokenId, b.Timeout, e.Height, e.LastBatchNonce[ext.ParseAddr(b.ExternalTokenId)]))
				return
			}
			w.St.Probe("batch-withdrawn-dead")
			// withdrawn: every transfer must be back in the pool (or already expired-refunded at C, or batched again at A)
			for _, tx := range b.Transactions {
				_, inPool := cur.Pool[ch][tx.Id]
				_, inBatch := cur.InBatch[ch][tx.Id]
				if !inPool && !inBatch && !(at == "C" && expired(w, tx, cur.Time)) {
					w.Fail("C13", "exact-repool", "lost", fmt.Sprintf("%s: transfer %d of withdrawn batch %d is neither pooled nor batched", ch, tx.Id, b.BatchNonce))
					return
				}
			}
		}
		if at == "C" {
			// an applied execution removes exactly that batch and (eth/bsc) the older same-token ones; nothing else
			for _, e := range execs {
				hasOlder, hasOther := false, false
				for _, b := range prev.Batches[ch] {
					if b.ExternalTokenId == e.ExternalCoinId && b.BatchNonce < e.BatchNonce {
						hasOlder = true
					}
					if b.ExternalTokenId != e.ExternalCoinId {
						hasOther = true
					}
				}
				if hasOlder {
					w.St.Probe("execution-with-older-same-token-batch-pending")
				}
				if hasOther {
					w.St.Probe("execution-with-other-token-batch-pending")
				}
				if hasOlder && hasOther {
					w.St.Probe("execution-with-older-and-other-token-batches-pending")
				}
				for k, b := range prev.Batches[ch] {
					_, still := cur.Batches[ch][k]
					older := b.ExternalTokenId == e.ExternalCoinId && b.BatchNonce < e.BatchNonce
					same := b.ExternalTokenId == e.ExternalCoinId && b.BatchNonce == e.BatchNonce
					w.St.Check("C13:exact-repool")
					if ch != "minter" && older && still {
						w.Fail("C13", "exact-repool", "older-kept", fmt.Sprintf("%s: batch %d of token %s stayed pending after batch %d was executed", ch, b.BatchNonce, b.ExternalTokenId, e.BatchNonce))
						return
					}
					if same && still {
						w.Fail("C13", "exact-repool", "executed-kept", fmt.Sprintf("%s: executed batch %d of token %s is still pending", ch, b.BatchNonce, b.ExternalTokenId))
						return
					}
				}
			}
		}
	}
}

func (o *C13) AfterBegin(w *World) {
	t := w.T()
	o.gone(w, t.Prev, t.Cur, "A")
	if !w.Stopped() {
		o.observedHeight(w, t.Prev, t.Cur, false)
	}
}
func (o *C13) AfterTx(w *World, r *TxResult) {
	t := w.T()
	for _, ch := range Chains {
		for k, b := range t.Prev.Batches[ch] {
			if _, still := t.Cur.Batches[ch][k]; !still {
				w.Fail("C13", "dead-before-cancel", "tx:"+r.Tx.Kind, fmt.Sprintf("%s: batch %d left the pending set while delivering a %s tx", ch, b.BatchNonce, r.Tx.Kind))
				return
			}
		}
	}
	o.observedHeight(w, t.Prev, t.Cur, false)
}
func (o *C13) AfterEnd(w *World) {
	t := w.T()
	o.gone(w, t.PreEnd, t.Cur, "C")
	if w.Stopped() {
		return
	}
	o.observedHeight(w, t.PreEnd, t.Cur, true)
}

// observedHeight: the height batches are timed out against is the height of the last APPLIED event of that
// chain - it moves only when an event is applied, and then to that event's height (never a projection, never
// the height carried by a claim that has not been accepted).
func (o *C13) observedHeight(w *World, prev, cur *Snap, endBlock bool) {
	t := w.T()
	for _, ch := range Chains {
		w.St.Check("C13:observed-height")
		was, is := prev.ObsH[ch].ExternalHeight, cur.ObsH[ch].ExternalHeight
		if was == is {
			continue
		}
		ok := false
		if endBlock {
			for _, a := range t.Applied {
				if a.Chain == ch && a.Event != nil && a.Event.GetExternalHeight() == is {
					ok = true
				}
			}
		}
		if !ok {
			w.Fail("C13", "observed-height", ch, fmt.Sprintf("%s: the last observed external height moved %d -> %d although no event with that height was applied in this step", ch, was, is))
			return
		}
	}
}

// ------------------------------------------------------------------------------------------------
// C12 — cancellation and expiry refund exactly, once, to the right party.
type C12 struct {
	BaseOracle
	refunded map[string]bool
	preBal   map[string]sdk.Int
}

func (*C12) Property() string { return "C12" }
func (o *C12) Init(w *World)  { o.refunded = map[string]bool{} }

// refundValue: R = (token+fee+commission) converted back to hub units, truncating.
func (w *World) refundValue(e *mhub2types.SendToExternal) (string, sdk.Int, bool) {
	t := w.TokenOfContract(e.ChainId, e.Token.ExternalTokenId)
	if t == nil {
		return "", sdk.Int{}, false
	}
	sum := new(big.Int).Add(e.Token.Amount.BigInt(), e.Fee.Amount.BigInt())
	sum.Add(sum, e.ValCommission.Amount.BigInt())
	if t.Decimals <= 18 {
		sum.Mul(sum, pow10(18-t.Decimals))
	} else {
		sum.Quo(sum, pow10(t.Decimals-18))
	}
	return t.Denom, sdk.NewIntFromBigInt(sum), true
}

func (o *C12) BeforeTx(w *World, tx *PendingTx) {
	if tx.Kind != "user_cancel" {
		return
	}
	st := w.ReadState()
	o.preBal = map[string]sdk.Int{}
	signer, _ := sdk.AccAddressFromBech32(tx.Signer)
	for _, d := range w.Cfg.Denoms() {
		o.preBal[d] = st.Balance(signer, d)
	}
}

func (o *C12) AfterTx(w *World, r *TxResult) {
	if r.Tx.Kind != "user_cancel" || anteRejected(r) {
		return
	}
	t := w.T()
	ch := r.Tx.Meta["chain"]
	id, _ := strconv.ParseUint(r.Tx.Meta["id"], 10, 64)
	entry, inPool := t.Prev.Pool[ch][id]
	w.St.Check("C12:cancel-auth")
	should := inPool && entry.Sender == r.Tx.Signer
	if !inPool {
		if _, inBatch := t.Prev.InBatch[ch][id]; inBatch {
			w.St.Probe("cancel-of-batched-transfer")
		}
	} else if entry.Sender != r.Tx.Signer {
		w.St.Probe("cancel-by-other-account")
	}
	got := r.Code == 0
	if got && !should {
		why := "it is not in that chain's unbatched pool"
		if inPool {
			why = "the signer is not its sender"
		}
		w.Fail("C12", "cancel-auth", "accepted", fmt.Sprintf("cancel of %s transfer %d by %s succeeded although %s", ch, id, r.Tx.Signer, why))
		return
	}
	if !got && should {
		// a refund that does not fit the supply (2^256-1) fails on its own: the cancel is refused without being denied
		if denom, R, ok := w.refundValue(entry); ok && strings.Contains(r.Log, "overflow") {
			if sum := new(big.Int).Add(w.ReadState().Supply(denom).BigInt(), R.BigInt()); sum.BitLen() > 256 {
				w.St.Probe("unrefundable-supply-overflow")
				return
			}
		}
		w.Fail("C12", "cancel-auth", "rejected", fmt.Sprintf("cancel of %s transfer %d by its sender was rejected: %s", ch, id, r.Log))
		return
	}
	if !got {
		return
	}
	w.St.Probe("nontrivial")
	key := ch + "/" + strconv.FormatUint(id, 10)
	if o.refunded[key] {
		w.Fail("C12", "refund-once", "cancel", fmt.Sprintf("%s transfer %d refunded a second time", ch, id))
		return
	}
	o.refunded[key] = true
	if _, still := t.Cur.Pool[ch][id]; still {
		w.Fail("C12", "refund-once", "not-removed", fmt.Sprintf("%s transfer %d is still pooled after a successful cancel", ch, id))
		return
	}
	denom, R, ok := w.refundValue(entry)
	if !ok {
		return
	}
	w.St.Check("C12:refund-amount")
	st := w.ReadState()
	signer, _ := sdk.AccAddressFromBech32(r.Tx.Signer)
	if entry.RefundChainId == "hub" {
		delta := st.Balance(signer, denom).Sub(o.preBal[denom])
		if !delta.Equal(R) {
			w.Fail("C12", "refund-amount", "cancel-hub", fmt.Sprintf("cancel of %s transfer %d returned %s%s, the recorded total is %s", ch, id, delta, denom, R))
			return
		}
	}
}

func (o *C12) AfterEnd(w *World) {
	t := w.T()
	st := w.ReadState()
	execed := map[string]bool{}
	for _, ch := range Chains {
		for _, e := range appliedExecOn(t, ch) {
			execed[ch+"|"+bkey(e.ExternalCoinId, e.BatchNonce)] = true
		}
	}
	// expected hub-side credits of this EndBlock per (account, denom): expiry refunds only; accounts that also
	// receive a deposit in this block are left to C11
	depositTo := map[string]bool{}
	for _, a := range t.Applied {
		switch e := a.Event.(type) {
		case *mhub2types.SendToHubEvent:
			depositTo[e.CosmosReceiver] = true
		case *mhub2types.TransferToChainEvent:
			if e.ReceiverChainId == "hub" {
				if rc, err := sdk.AccAddressFromHex(trim0x(e.ExternalReceiver)); err == nil {
					depositTo[rc.String()] = true
				}
			}
		}
	}
	want := map[string]sdk.Int{} // addr|denom
	crossWant := map[string][]sdk.Int{}
	for _, ch := range Chains {
		// candidates: pooled transfers, plus transfers of batches that an applied execution of a newer batch
		// returned to the pool in this very EndBlock (they can expire at once)
		cands := map[uint64]*mhub2types.SendToExternal{}
		for id, e := range t.PreEnd.Pool[ch] {
			cands[id] = e
		}
		for k, b := range t.PreEnd.Batches[ch] {
			if _, stillB := t.Cur.Batches[ch][k]; stillB || execed[ch+"|"+k] {
				continue
			}
			for _, tx := range b.Transactions {
				cands[tx.Id] = tx
			}
		}
		var ids []uint64
		for id := range cands {
			ids = append(ids, id)
		}
		sort.Slice(ids, func(i, j int) bool { return ids[i] < ids[j] })
		for _, id := range ids {
			e := cands[id]
			_, still := t.Cur.Pool[ch][id]
			isExp := expired(w, e, t.Cur.Time)
			if still || t.Cur.InBatch[ch][id] != nil {
				continue
			}
			w.St.Check("C12:no-early-expiry")
			if !isExp {
				w.Fail("C12", "no-early-expiry", "end-block", fmt.Sprintf("%s transfer %d (created %d) was removed at block time %d before its timeout of %d ms", ch, id, e.CreatedAt, t.Cur.Time.Unix(), w.Cfg.OutgoingTxTimeoutMs))
				return
			}
			key := ch + "/" + strconv.FormatUint(id, 10)
			if o.refunded[key] {
				w.Fail("C12", "refund-once", "expiry", fmt.Sprintf("%s transfer %d refunded a second time", ch, id))
				return
			}
			o.refunded[key] = true
			w.St.Probe("nontrivial")
			denom, R, ok := w.refundValue(e)
			if !ok || R.IsZero() {
				continue // nothing was recorded for it (dust lost to decimal conversion): nothing to return
			}
			if e.RefundChainId == "hub" && e.Sender == TempAddr().String() {
				continue // governance cold-storage transfer: minted for the purpose, nobody is owed a refund
			}
			switch e.RefundChainId {
			case "hub":
				k := e.Sender + "|" + denom
				if _, ok := want[k]; !ok {
					want[k] = sdk.ZeroInt()
				}
				want[k] = want[k].Add(R)
			case "":
				// module-created transfer (commission/fee payout): nothing is returned to anybody
			default:
				crossWant[e.RefundChainId+"|"+e.RefundAddress+"|"+denom] = append(crossWant[e.RefundChainId+"|"+e.RefundAddress+"|"+denom], R)
				w.St.Probe("cross-chain-refund")
			}
		}
	}
	// expiry is swept every block: nothing that is past its timeout may survive EndBlock in the pool
	for _, ch := range Chains {
		for id, e := range t.Cur.Pool[ch] {
			if _, wasThere := t.PreEnd.Pool[ch][id]; !wasThere {
				continue // re-pooled or created in this very EndBlock
			}
			w.St.Check("C12:expiry-due")
			if expired(w, e, t.Cur.Time) {
				// a refund that does not fit the supply (minting it would pass 2^256-1) fails on its own and is tried
				// again in the next block: that transfer - and only that one - may stay
				if denom, R, ok := w.refundValue(e); ok {
					sum := new(big.Int).Add(st.Supply(denom).BigInt(), R.BigInt())
					if sum.BitLen() > 256 {
						w.St.Probe("unrefundable-supply-overflow")
						continue
					}
				}
				w.Fail("C12", "expiry-due", "end-block", fmt.Sprintf("%s transfer %d (created %d, timeout %d ms) is past its timeout at block time %d but was neither refunded nor removed (sender %s, refund to %s on %q, token %s, amount %s fee %s commission %s)", ch, id, e.CreatedAt, w.Cfg.OutgoingTxTimeoutMs, t.Cur.Time.Unix(), e.Sender, e.RefundAddress, e.RefundChainId, e.Token.ExternalTokenId, e.Token.Amount, e.Fee.Amount, e.ValCommission.Amount))
				return
			}
		}
	}
	for _, k := range sortedKeys(want) {
		var addr, denom string
		for i := range k {
			if k[i] == '|' {
				addr, denom = k[:i], k[i+1:]
			}
		}
		if depositTo[addr] {
			continue
		}
		acc, err := sdk.AccAddressFromBech32(addr)
		if err != nil {
			continue
		}
		w.St.Check("C12:refund-amount")
		pre := ReadBalanceAt(w, t.PreEnd, acc, denom)
		delta := st.Balance(acc, denom).Sub(pre)
		if !delta.Equal(want[k]) {
			w.Fail("C12", "refund-amount", "expiry-hub", fmt.Sprintf("expiry returned %s%s to %s, the recorded totals add up to %s", delta, denom, addr, want[k]))
			return
		}
	}
	// cross-chain origin: exactly one new transfer of R to the originating address on the originating chain
	for _, k := range sortedKeys(crossWant) {
		parts := splitN(k, '|', 3)
		rch, raddr, denom := parts[0], parts[1], parts[2]
		var got []sdk.Int
		for id, e := range t.Cur.Pool[rch] {
			if _, old := t.PreEnd.Pool[rch][id]; old {
				continue
			}
			if _, oldb := t.PreEnd.InBatch[rch][id]; oldb {
				continue
			}
			tk := w.TokenOfContract(rch, e.Token.ExternalTokenId)
			if tk == nil || tk.Denom != denom || e.ExternalRecipient != raddr || e.TxHash != "#" {
				continue
			}
			got = append(got, e.Token.Amount)
		}
		w.St.Check("C12:refund-amount")
		if len(got) != len(crossWant[k]) {
			w.Fail("C12", "refund-amount", "expiry-cross-count", fmt.Sprintf("%d transfers expired with origin %s on %s but %d refund transfers were created", len(crossWant[k]), raddr, rch, len(got)))
			return
		}
	}
}

func trim0x(s string) string {
	if len(s) >= 2 && (s[:2] == "0x" || s[:2] == "0X") {
		return s[2:]
	}
	return s
}

func splitN(s string, sep byte, n int) []string {
	var out []string
	start := 0
	for i := 0; i < len(s) && len(out) < n-1; i++ {
		if s[i] == sep {
			out = append(out, s[start:i])
			start = i + 1
		}
	}
	return append(out, s[start:])
}

// ReadBalanceAt: balances are not part of Snap; C12/C11 keep their own pre-EndBlock copies through this cache.
func ReadBalanceAt(w *World, s *Snap, acc sdk.AccAddress, denom string) sdk.Int {
	if w.preEndBal == nil {
		return sdk.ZeroInt()
	}
	if v, ok := w.preEndBal[acc.String()+"|"+denom]; ok {
		return v
	}
	return sdk.ZeroInt()
}
