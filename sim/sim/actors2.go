package sim

import (
	"fmt"
	"math/big"
	"strconv"
	"strings"

	"mhubsim/hub"

	mhub2types "github.com/MinterTeam/mhub2/module/x/mhub2/types"
	oracletypes "github.com/MinterTeam/mhub2/module/x/oracle/types"
	codectypes "github.com/cosmos/cosmos-sdk/codec/types"
	sdk "github.com/cosmos/cosmos-sdk/types"
	slashingtypes "github.com/cosmos/cosmos-sdk/x/slashing/types"
	stakingtypes "github.com/cosmos/cosmos-sdk/x/staking/types"
)

// ---------------------------------------------------------------- price / holder oracle daemon

func (w *World) requiredPriceNames() []string {
	names := []string{"eth", "ethereum/gas", "bnb", "bsc/gas"}
	seen := map[string]bool{}
	var out []string
	for _, n := range names {
		if !seen[n] {
			seen[n] = true
			out = append(out, n)
		}
	}
	for _, t := range w.ReadState().TokenInfos() {
		if !seen[t.Denom] {
			seen[t.Denom] = true
			out = append(out, t.Denom)
		}
	}
	return out
}

func (w *World) doOracleClaim(in Intent) {
	v := w.val(in.V)
	signer := v.Oper
	if in.As != "" {
		if a, ok := w.Extra[in.As]; ok {
			signer = a
		}
	}
	epoch := int64(w.ReadState().OracleEpoch()) + int64(in.N)
	if epoch < 0 {
		epoch = 0
	}
	meta := map[string]string{"val": strconv.Itoa(v.Idx), "kind": in.Op, "epoch": strconv.FormatInt(epoch, 10)}
	switch in.Op {
	case "price":
		pl := &oracletypes.Prices{}
		names := w.requiredPriceNames()
		for i, n := range names {
			val := "1"
			if i < len(in.Vals) {
				val = in.Vals[i]
			} else if len(in.Vals) > 0 {
				val = in.Vals[len(in.Vals)-1]
			}
			if val == "-" { // omit this required price
				continue
			}
			d, err := sdk.NewDecFromStr(val)
			if err != nil {
				d = sdk.OneDec()
			}
			pl.List = append(pl.List, &oracletypes.Price{Name: n, Value: d})
		}
		meta["prices"] = strings.Join(in.Vals, ",")
		w.Submit("price_claim", signer, in.Net, meta, &oracletypes.MsgPriceClaim{Epoch: uint64(epoch), Prices: pl, Orchestrator: signer.Addr.String()})
	case "holders":
		hl := &oracletypes.Holders{}
		// Vals: "uK=value" entries; order given by the intent (order independence is part of the property)
		for _, e := range in.Vals {
			parts := strings.SplitN(e, "=", 2)
			if len(parts) != 2 {
				continue
			}
			k, _ := strconv.Atoi(strings.TrimPrefix(parts[0], "u"))
			a := w.user(k).Eth()
			val, ok := sdk.NewIntFromString(parts[1])
			if !ok {
				continue
			}
			hl.List = append(hl.List, &oracletypes.Holder{Address: fmt.Sprintf("%x", a[:]), Value: val})
		}
		meta["holders"] = strings.Join(in.Vals, ",")
		if in.Mut == "nil_holders" { // passes ValidateBasic: the list is simply absent
			hl = nil
			w.St.Fault("oracle_nil_holders")
		}
		w.Submit("holders_claim", signer, in.Net, meta, &oracletypes.MsgHoldersClaim{Epoch: uint64(epoch), Holders: hl, Orchestrator: signer.Addr.String()})
	}
}

// ---------------------------------------------------------------- staking

func (w *World) doStake(in Intent) {
	v := w.val(in.V)
	amt := tokensFromPower(1)
	if in.Amt != "" {
		if a, ok := sdk.NewIntFromString(in.Amt); ok {
			amt = a.Mul(sdk.NewInt(1_000_000))
		}
	}
	coin := sdk.NewCoin(hub.BondDenom, amt)
	switch in.Op {
	case "delegate":
		// the validator's own account tops up its self-delegation (it holds 1000 power of liquid stake)
		w.Submit("stake", v.Oper, in.Net, map[string]string{"op": in.Op}, &stakingtypes.MsgDelegate{DelegatorAddress: v.Oper.Addr.String(), ValidatorAddress: v.Oper.ValAddr().String(), Amount: coin})
		w.St.Fault("stake_churn")
	case "undelegate":
		w.Submit("stake", v.Oper, in.Net, map[string]string{"op": in.Op}, &stakingtypes.MsgUndelegate{DelegatorAddress: v.Oper.Addr.String(), ValidatorAddress: v.Oper.ValAddr().String(), Amount: coin})
		w.St.Fault("stake_churn")
	case "create":
		l := "newval0"
		if in.Pick%2 == 1 {
			l = "newval1"
		}
		acc := w.Extra[l]
		pk := hub.DetConsKey(l).PubKey()
		pkAny, err := codectypes.NewAnyWithValue(pk)
		if err != nil {
			return
		}
		msg := &stakingtypes.MsgCreateValidator{Description: stakingtypes.Description{Moniker: l},
			Commission:        stakingtypes.NewCommissionRates(sdk.ZeroDec(), sdk.ZeroDec(), sdk.ZeroDec()),
			MinSelfDelegation: sdk.OneInt(), DelegatorAddress: acc.Addr.String(), ValidatorAddress: acc.ValAddr().String(), Pubkey: pkAny, Value: coin}
		w.Submit("stake", acc, in.Net, map[string]string{"op": in.Op}, msg)
		w.St.Fault("stake_new_validator")
	case "recreate":
		// a validator that was removed from staking (everything undelegated, unbonding over) is created again
		// under the same operator address
		if w.ReadState().Validator(v.Oper.ValAddr()) != nil {
			return
		}
		pkAny, err := codectypes.NewAnyWithValue(v.Cons.PubKey())
		if err != nil {
			return
		}
		msg := &stakingtypes.MsgCreateValidator{Description: stakingtypes.Description{Moniker: "again"},
			Commission:        stakingtypes.NewCommissionRates(sdk.ZeroDec(), sdk.ZeroDec(), sdk.ZeroDec()),
			MinSelfDelegation: sdk.OneInt(), DelegatorAddress: v.Oper.Addr.String(), ValidatorAddress: v.Oper.ValAddr().String(), Pubkey: pkAny, Value: coin}
		w.Submit("stake", v.Oper, in.Net, map[string]string{"op": in.Op}, msg)
		w.St.Fault("stake_validator_recreated")
	case "unjail":
		w.Submit("stake", v.Oper, in.Net, map[string]string{"op": in.Op}, &slashingtypes.MsgUnjail{ValidatorAddr: v.Oper.ValAddr().String()})
	}
}

// ---------------------------------------------------------------- Byzantine validator: mutated copy of the true next event

// MutationFields lists, per event type, the fields the property C14 names.
var MutationFields = map[string][]string{
	"TransferToChainEvent":      {"coin", "amount", "amount_hi64", "fee", "fee_hi64", "fee_neg", "sender", "sender_0X", "receiver", "receiver_bare", "dest_chain", "dest_chain_pad", "height", "height_hi", "tx_hash", "type", "shift_coin_amount", "shift_dec_first", "shift_dec_last", "shift_amount_fee"},
	"SendToHubEvent":            {"coin", "amount", "amount_hi64", "sender", "receiver", "height", "height_hi", "tx_hash", "type", "shift_coin_amount", "shift_dec_first", "shift_dec_last"},
	"BatchExecutedEvent":        {"coin", "batch_nonce", "batch_nonce_hi", "height", "height_hi", "tx_hash", "fee_paid", "fee_paid_hi64", "fee_paid_neg", "fee_payer", "type"},
	"SignerSetTxExecutedEvent":  {"set_nonce", "set_nonce_hi", "height", "height_hi", "tx_hash", "member_addr", "member_last_addr", "member_zero", "member_power", "member_power_hi", "type"},
	"ContractCallExecutedEvent": {"scope", "inval_nonce", "inval_nonce_hi", "height", "height_hi", "tx_hash", "type"},
}

func flipHexChar(s string, pos int) string {
	if len(s) <= pos {
		return s
	}
	b := []byte(s)
	if b[pos] == '1' {
		b[pos] = '2'
	} else {
		b[pos] = '1'
	}
	return string(b)
}

// Mutate returns an admissible copy of ev with exactly one field changed (nil if not applicable).
func (w *World) Mutate(chain string, ev mhub2types.ExternalEvent, mut string) mhub2types.ExternalEvent {
	one := sdk.OneInt()
	otherCoin := func(cur string) string {
		for _, t := range w.Cfg.Tokens {
			if t.Chain == chain && t.ExtID != cur {
				return t.ExtID
			}
		}
		if chain == "minter" {
			return cur + "0"
		}
		return flipHexChar(cur, len(cur)-1)
	}
	switch e := ev.(type) {
	case *mhub2types.TransferToChainEvent:
		c := *e
		switch mut {
		case "coin":
			c.ExternalCoinId = otherCoin(c.ExternalCoinId)
		case "amount":
			c.Amount = c.Amount.Add(one)
		case "amount_hi64": // differs by exactly 2^64: a 64-bit rendering of the amount anywhere in the identifier collides
			c.Amount = c.Amount.Add(sdk.NewIntFromBigInt(new(big.Int).Lsh(big.NewInt(1), 64)))
		case "fee_hi64":
			if c.Fee.IsNil() {
				return nil
			}
			c.Fee = c.Fee.Add(sdk.NewIntFromBigInt(new(big.Int).Lsh(big.NewInt(1), 64)))
		case "fee":
			c.Fee = c.Fee.Add(one)
		case "fee_neg": // the same magnitude with the other sign (stateless validation only looks at the amount)
			if c.Fee.IsNil() || c.Fee.IsZero() {
				return nil
			}
			c.Fee = c.Fee.Neg()
		case "sender":
			c.Sender = flipHexChar(c.Sender, len(c.Sender)-1)
		case "receiver":
			c.ExternalReceiver = flipHexChar(c.ExternalReceiver, len(c.ExternalReceiver)-1)
		case "receiver_bare":
			// the same 40 digits without the 0x prefix, destination hub: the hub pays the account it reads from
			// the text after its first two characters, i.e. another account - a different effect, hence a different event
			if c.ReceiverChainId != "hub" || !strings.HasPrefix(c.ExternalReceiver, "0x") {
				return nil
			}
			c.ExternalReceiver = c.ExternalReceiver[2:]
		case "sender_0X":
			// the same sender with an upper-case prefix is not recognised as a holder: another commission
			if c.ReceiverChainId == "hub" || !strings.HasPrefix(c.Sender, "0x") {
				return nil
			}
			c.Sender = "0X" + c.Sender[2:]
		case "dest_chain_pad":
			// the contract passes the destination as bytes32: an orchestrator that does not trim the padding reports
			// "bsc\x00\x00..." - not a chain the hub knows, so the transfer takes another path than for "bsc"
			c.ReceiverChainId = c.ReceiverChainId + "\x00\x00"
		case "dest_chain":
			for _, ch := range []string{"hub", "ethereum", "bsc", "minter"} {
				if ch != c.ReceiverChainId && ch != chain {
					c.ReceiverChainId = ch
					break
				}
			}
		case "height":
			c.ExternalHeight++
		case "height_hi": // differs only above bit 32: a narrowing conversion anywhere in the identifier collides
			c.ExternalHeight += 1 << 32
		case "tx_hash":
			c.TxHash = c.TxHash + "00"
		case "type":
			if c.ReceiverChainId != "hub" {
				return nil
			}
			// same data reported as a plain deposit
			rcv, err := sdk.AccAddressFromHex(strings.TrimPrefix(strings.ToLower(c.ExternalReceiver), "0x"))
			if err != nil {
				return nil
			}
			return &mhub2types.SendToHubEvent{EventNonce: c.EventNonce, ExternalCoinId: c.ExternalCoinId, Amount: c.Amount, Sender: c.Sender, CosmosReceiver: rcv.String(), ExternalHeight: c.ExternalHeight, TxHash: c.TxHash}
		case "shift_coin_amount":
			// Minter ids are decimal strings: move the last digit of the id into the amount bytes
			if chain != "minter" || len(c.ExternalCoinId) < 2 {
				return nil
			}
			last := c.ExternalCoinId[len(c.ExternalCoinId)-1]
			c.ExternalCoinId = c.ExternalCoinId[:len(c.ExternalCoinId)-1]
			ab := append([]byte{last}, c.Amount.BigInt().Bytes()...)
			c.Amount = sdk.NewIntFromBigInt(new(big.Int).SetBytes(ab))
			if c.Amount.BigInt().BitLen() > 255 {
				return nil
			}
		case "shift_dec_first", "shift_dec_last":
			if chain != "minter" {
				return nil
			}
			nc, na, ok := decShift(c.ExternalCoinId, c.Amount, mut == "shift_dec_first")
			if !ok {
				return nil
			}
			c.ExternalCoinId, c.Amount = nc, na
		case "shift_amount_fee":
			// amount and fee are adjacent numbers: "12"|"3" vs "1"|"23"
			a, f := c.Amount.String(), c.Fee.String()
			if len(a) < 2 || c.Fee.IsNegative() {
				return nil
			}
			na, ok1 := sdk.NewIntFromString(a[:len(a)-1])
			nf, ok2 := sdk.NewIntFromString(a[len(a)-1:] + f)
			if !ok1 || !ok2 {
				return nil
			}
			c.Amount, c.Fee = na, nf
		default:
			return nil
		}
		return &c
	case *mhub2types.SendToHubEvent:
		c := *e
		switch mut {
		case "coin":
			c.ExternalCoinId = otherCoin(c.ExternalCoinId)
		case "amount":
			c.Amount = c.Amount.Add(one)
		case "amount_hi64":
			c.Amount = c.Amount.Add(sdk.NewIntFromBigInt(new(big.Int).Lsh(big.NewInt(1), 64)))
		case "sender":
			c.Sender = flipHexChar(c.Sender, len(c.Sender)-1)
		case "receiver":
			c.CosmosReceiver = w.user(int(c.EventNonce)).Acc.Addr.String()
			if c.CosmosReceiver == e.CosmosReceiver {
				c.CosmosReceiver = w.Extra["foreign0"].Addr.String()
			}
		case "height":
			c.ExternalHeight++
		case "height_hi": // differs only above bit 32: a narrowing conversion anywhere in the identifier collides
			c.ExternalHeight += 1 << 32
		case "tx_hash":
			c.TxHash = c.TxHash + "00"
		case "type":
			rcv, err := sdk.AccAddressFromBech32(c.CosmosReceiver)
			if err != nil {
				return nil
			}
			return &mhub2types.TransferToChainEvent{EventNonce: c.EventNonce, ExternalCoinId: c.ExternalCoinId, Amount: c.Amount, Fee: sdk.ZeroInt(), Sender: c.Sender,
				ReceiverChainId: "hub", ExternalReceiver: fmt.Sprintf("0x%x", rcv.Bytes()), ExternalHeight: c.ExternalHeight, TxHash: c.TxHash}
		case "shift_coin_amount":
			if chain != "minter" || len(c.ExternalCoinId) < 2 {
				return nil
			}
			last := c.ExternalCoinId[len(c.ExternalCoinId)-1]
			c.ExternalCoinId = c.ExternalCoinId[:len(c.ExternalCoinId)-1]
			ab := append([]byte{last}, c.Amount.BigInt().Bytes()...)
			c.Amount = sdk.NewIntFromBigInt(new(big.Int).SetBytes(ab))
			if c.Amount.BigInt().BitLen() > 255 {
				return nil
			}
		case "shift_dec_first", "shift_dec_last":
			if chain != "minter" {
				return nil
			}
			nc, na, ok := decShift(c.ExternalCoinId, c.Amount, mut == "shift_dec_first")
			if !ok {
				return nil
			}
			c.ExternalCoinId, c.Amount = nc, na
		default:
			return nil
		}
		return &c
	case *mhub2types.BatchExecutedEvent:
		c := *e
		switch mut {
		case "coin":
			c.ExternalCoinId = otherCoin(c.ExternalCoinId)
		case "batch_nonce":
			c.BatchNonce++
		case "batch_nonce_hi":
			c.BatchNonce += 1 << 32
		case "height":
			c.ExternalHeight++
		case "height_hi": // differs only above bit 32: a narrowing conversion anywhere in the identifier collides
			c.ExternalHeight += 1 << 32
		case "tx_hash":
			c.TxHash = c.TxHash + "00"
		case "fee_paid_neg":
			if c.FeePaid.IsNil() || c.FeePaid.IsZero() {
				return nil
			}
			c.FeePaid = c.FeePaid.Neg()
		case "fee_paid":
			if c.FeePaid.IsNil() {
				c.FeePaid = one
			} else {
				c.FeePaid = c.FeePaid.Add(one)
			}
		case "fee_paid_hi64":
			h := sdk.NewIntFromBigInt(new(big.Int).Lsh(big.NewInt(1), 64))
			if c.FeePaid.IsNil() {
				c.FeePaid = h
			} else {
				c.FeePaid = c.FeePaid.Add(h)
			}
		case "fee_payer":
			if c.FeePayer == "" {
				c.FeePayer = "0x00000000000000000000000000000000000000b1"
			} else {
				c.FeePayer = flipHexChar(c.FeePayer, len(c.FeePayer)-1)
			}
		default:
			return nil
		}
		return &c
	case *mhub2types.SignerSetTxExecutedEvent:
		c := *e
		c.Members = nil
		for _, m := range e.Members {
			mm := *m
			c.Members = append(c.Members, &mm)
		}
		if c.Members == nil {
			c.Members = []*mhub2types.ExternalSigner{}
		}
		switch mut {
		case "set_nonce":
			c.SignerSetTxNonce++
		case "set_nonce_hi":
			c.SignerSetTxNonce += 1 << 32
		case "height":
			c.ExternalHeight++
		case "height_hi": // differs only above bit 32: a narrowing conversion anywhere in the identifier collides
			c.ExternalHeight += 1 << 32
		case "tx_hash":
			c.TxHash = c.TxHash + "00"
		case "member_addr":
			if len(c.Members) == 0 {
				return nil
			}
			c.Members[0].ExternalAddress = flipHexChar(c.Members[0].ExternalAddress, len(c.Members[0].ExternalAddress)-1)
		case "member_last_addr": // the least powerful member is somebody else
			if len(c.Members) < 2 {
				return nil
			}
			ms := make([]*mhub2types.ExternalSigner, len(c.Members))
			for i, m := range c.Members {
				x := *m
				ms[i] = &x
			}
			l := ms[len(ms)-1]
			l.ExternalAddress = flipHexChar(l.ExternalAddress, len(l.ExternalAddress)-1)
			c.Members = ms
		case "member_zero": // one more member, without any power (the hub publishes such members for dust stakes)
			ms := make([]*mhub2types.ExternalSigner, 0, len(c.Members)+1)
			for _, m := range c.Members {
				x := *m
				ms = append(ms, &x)
			}
			ms = append(ms, &mhub2types.ExternalSigner{Power: 0, ExternalAddress: "0x00000000000000000000000000000000000000e1"})
			c.Members = ms
		case "member_power":
			if len(c.Members) == 0 {
				return nil
			}
			c.Members[0].Power++
		case "member_case": // the same members, addresses spelled in lower case (not a different event: same 20 bytes)
			for _, m := range c.Members {
				m.ExternalAddress = strings.ToLower(m.ExternalAddress)
			}
		case "member_power_hi": // the first member has the greatest power: adding 2^32 keeps the sort position
			if len(c.Members) == 0 {
				return nil
			}
			c.Members[0].Power += 1 << 32
		default:
			return nil
		}
		return &c
	case *mhub2types.ContractCallExecutedEvent:
		c := *e
		switch mut {
		case "scope":
			c.InvalidationScope = append(append([]byte(nil), c.InvalidationScope...), 1)
		case "inval_nonce":
			c.InvalidationNonce++
		case "inval_nonce_hi":
			c.InvalidationNonce += 1 << 32
		case "height":
			c.ExternalHeight++
		case "height_hi": // differs only above bit 32: a narrowing conversion anywhere in the identifier collides
			c.ExternalHeight += 1 << 32
		case "tx_hash":
			c.TxHash = c.TxHash + "00"
		default:
			return nil
		}
		return &c
	}
	return nil
}

// decShift moves one decimal digit between a numeric Minter coin id and the amount, in the two ways a
// concatenation of their decimal renderings could confuse (coin|amount and amount|coin).
func decShift(coin string, amt sdk.Int, first bool) (string, sdk.Int, bool) {
	if len(coin) < 2 || amt.IsNegative() {
		return "", sdk.Int{}, false
	}
	for _, c := range coin {
		if c < '0' || c > '9' {
			return "", sdk.Int{}, false
		}
	}
	var nc, na string
	if first { // amount|coin: "1"+"23" == "12"+"3"
		nc, na = coin[1:], amt.String()+coin[:1]
	} else { // coin|amount: "23"+"1" == "2"+"31"
		nc, na = coin[:len(coin)-1], coin[len(coin)-1:]+amt.String()
	}
	if nc[0] == '0' && len(nc) > 1 {
		return "", sdk.Int{}, false
	}
	v, ok := sdk.NewIntFromString(na)
	if !ok {
		return "", sdk.Int{}, false
	}
	return nc, v, true
}

func eventTypeName(ev mhub2types.ExternalEvent) string {
	s := fmt.Sprintf("%T", ev)
	return s[strings.LastIndex(s, ".")+1:]
}

func (w *World) doByzClaim(in Intent) {
	v := w.val(in.V)
	signer := w.signerFor(v, in.Chain, in.As)
	last, ok := w.hubLastNonce(in.Chain, signer.Addr)
	if !ok {
		return
	}
	n := last + 1
	truth := w.TrueClaim(in.Chain, n)
	if truth == nil {
		return
	}
	tn := eventTypeName(truth)
	fields := MutationFields[tn]
	mut := in.Mut
	if mut == "" && len(fields) > 0 {
		mut = fields[in.Pick%len(fields)]
	}
	m := w.Mutate(in.Chain, truth, mut)
	if m == nil {
		return
	}
	if err := m.Validate(mhub2types.ChainID(in.Chain)); err != nil {
		w.St.Inc("byz:inadmissible")
		return
	}
	any, err := mhub2types.PackEvent(m)
	if err != nil {
		return
	}
	w.ByzVals[v.Oper.ValAddr().String()] = true
	w.St.Fault("byz_mutated_claim")
	w.St.Inc("byz:" + tn + ":" + mut)
	w.Submit("claim", signer, in.Net, map[string]string{"chain": in.Chain, "val": strconv.Itoa(v.Idx), "nonces": strconv.FormatUint(n, 10), "true": "0", "mut": mut, "etype": tn},
		&mhub2types.MsgSubmitExternalEvent{Event: any, Signer: signer.Addr.String(), ChainId: in.Chain})
}

// ---------------------------------------------------------------- node crash / restart

func (w *World) doNodeRestart(in Intent) {
	if len(w.Nodes) == 0 {
		return
	}
	if in.Op == "mid" { // the crash happens inside the next block, at stage N
		w.MidCrash = &MidCrash{Node: in.Pick, Pick: in.N}
		return
	}
	n := w.Nodes[in.Pick%len(w.Nodes)]
	if n.InBlock {
		return
	}
	n.Restart()
	w.St.Fault("node_restart")
}
