package sim

import (
	"bytes"
	"fmt"
	"math/big"
	"os"
	"sort"
	"strconv"
	"strings"

	mhub2types "github.com/MinterTeam/mhub2/module/x/mhub2/types"
	oracletypes "github.com/MinterTeam/mhub2/module/x/oracle/types"
	sdk "github.com/cosmos/cosmos-sdk/types"
	stakingtypes "github.com/cosmos/cosmos-sdk/x/staking/types"
)

// ------------------------------------------------------------------------------------------------
// C18 — price and holder attestations need a distinct-validator quorum.
type C18 struct {
	absent    map[uint64]bool   // epochs in which some accepted holders claim carried no list at all
	prevPrice map[string]string // price name -> stored value after the previous change
	BaseOracle
	prices  map[uint64]map[string]map[string]*big.Rat // epoch -> validator -> name -> latest value
	holders map[uint64]map[string]string              // epoch -> validator -> canonical list
	repeat  map[string]int
	lastP   []byte
	lastH   []byte
	epochAt uint64
}

func (*C18) Property() string { return "C18" }

func (o *C18) Init(w *World) {
	o.prices = map[uint64]map[string]map[string]*big.Rat{}
	o.holders = map[uint64]map[string]string{}
	o.repeat = map[string]int{}
	o.lastP, o.lastH = o.raw(w)
}

func (o *C18) raw(w *World) ([]byte, []byte) {
	st := w.ReadState()
	s := st.ctx.KVStore(st.n.App.GetKey("oracle"))
	return append([]byte(nil), s.Get(oracletypes.CurrentPricesKey)...), append([]byte(nil), s.Get(oracletypes.CurrentHoldersKey)...)
}

func canonHolders(h *oracletypes.Holders) string {
	var items []string
	if h != nil {
		for _, x := range h.List {
			items = append(items, strings.ToLower(x.Address)+":"+x.Value.String())
		}
	}
	sort.Strings(items)
	return strings.Join(items, ",")
}

func (o *C18) BeforeTx(w *World, tx *PendingTx) {
	if tx.Kind == "price_claim" || tx.Kind == "holders_claim" {
		o.epochAt = w.ReadState().OracleEpoch()
	}
}

func (o *C18) unchanged(w *World, where string) {
	p, h := o.raw(w)
	w.St.Check("C18:only-at-epoch")
	if !bytes.Equal(p, o.lastP) {
		w.Fail("C18", "only-at-epoch", "prices:"+where, "stored prices changed outside an epoch boundary ("+where+")")
		return
	}
	if !bytes.Equal(h, o.lastH) {
		w.Fail("C18", "only-at-epoch", "holders:"+where, "stored holder list changed outside an epoch boundary ("+where+")")
	}
}

func (o *C18) AfterBegin(w *World) { o.unchanged(w, "BeginBlock") }

func (o *C18) AfterTx(w *World, r *TxResult) {
	o.unchanged(w, "tx:"+r.Tx.Kind)
	if w.Stopped() || r.Code != 0 {
		return
	}
	switch r.Tx.Kind {
	case "price_claim":
		m := r.Tx.Msgs[0].(*oracletypes.MsgPriceClaim)
		if m.Epoch != o.epochAt {
			w.St.Probe("claim-for-other-epoch-ignored")
			return
		}
		acc, _ := sdk.AccAddressFromBech32(m.Orchestrator)
		val := sdk.ValAddress(acc).String()
		if o.prices[m.Epoch] == nil {
			o.prices[m.Epoch] = map[string]map[string]*big.Rat{}
		}
		if _, again := o.prices[m.Epoch][val]; again {
			w.St.Probe("repeated-claim-in-epoch")
		}
		vals := map[string]*big.Rat{}
		for _, p := range m.Prices.List {
			rv, _ := new(big.Rat).SetString(p.Value.String())
			vals[p.Name] = rv
		}
		o.prices[m.Epoch][val] = vals
	case "holders_claim":
		m := r.Tx.Msgs[0].(*oracletypes.MsgHoldersClaim)
		if m.Epoch != o.epochAt {
			return
		}
		acc, _ := sdk.AccAddressFromBech32(m.Orchestrator)
		val := sdk.ValAddress(acc).String()
		if o.holders[m.Epoch] == nil {
			o.holders[m.Epoch] = map[string]string{}
		}
		// a claim whose list is absent reports "no holders", the same list as an empty one
		o.holders[m.Epoch][val] = canonHolders(m.Holders)
		if m.Holders == nil {
			if o.absent == nil {
				o.absent = map[uint64]bool{}
			}
			o.absent[m.Epoch] = true // such a claim can make the whole holder attestation of its epoch fail on its own
		}
	}
}

func (o *C18) AfterEnd(w *World) {
	st := w.ReadState()
	p, h := o.raw(w)
	height := w.N().Header.Height
	pChanged, hChanged := !bytes.Equal(p, o.lastP), !bytes.Equal(h, o.lastH)
	o.lastP, o.lastH = p, h
	if height%5 == 0 && !w.Tainted && !o.absent[st.OracleEpoch()-1] {
		// a list that three quarters of the voting power reported identically in the epoch that just ended
		// is the adopted list from now on (an older list must not stay in force)
		ep := st.OracleEpoch() - 1
		byList := map[string]int64{}
		for _, v := range sortedKeys(o.holders[ep]) {
			if va, err := sdk.ValAddressFromBech32(v); err == nil {
				if vv := st.Validator(va); vv != nil && vv.Status == stakingtypes.Bonded {
					byList[o.holders[ep][v]] += st.LastValidatorPower(va)
				}
			}
		}
		tot := st.LastTotalPower()
		for _, l := range sortedKeys(byList) {
			if tot.IsPositive() && sdk.NewInt(byList[l]).MulRaw(100).GTE(tot.MulRaw(75)) {
				w.St.Check("C18:holders-follow-quorum")
				if got := canonHolders(st.OracleHolders()); got != l {
					w.Fail("C18", "holders-two-thirds", "not-adopted", fmt.Sprintf("validators holding %d of %s voting power reported the identical holder list [%s] in epoch %d, but the list in force is [%s]", byList[l], tot, l, ep, got))
					return
				}
			}
		}
	}
	if !pChanged && !hChanged {
		return
	}
	w.St.Check("C18:only-at-epoch")
	if height%5 != 0 {
		w.Fail("C18", "only-at-epoch", "EndBlock", fmt.Sprintf("prices/holders changed in EndBlock of height %d, which is not an epoch boundary", height))
		return
	}
	epoch := st.OracleEpoch() - 1 // the epoch that was just processed
	total := st.LastTotalPower()
	power := func(val string) int64 {
		va, err := sdk.ValAddressFromBech32(val)
		if err != nil {
			return 0
		}
		v := st.Validator(va)
		if v == nil || v.Status != stakingtypes.Bonded {
			return 0
		}
		return st.LastValidatorPower(va)
	}
	nVals := int64(len(st.AllValidators()))
	if pChanged {
		w.St.Probe("nontrivial")
		w.St.Check("C18:distinct-quorum")
		reps := o.prices[epoch]
		sum := int64(0)
		for _, v := range sortedKeys(reps) {
			sum += power(v)
		}
		if sdk.NewInt(sum).MulRaw(100).LT(total.MulRaw(66)) {
			w.Fail("C18", "distinct-quorum", "prices", fmt.Sprintf("prices changed at epoch %d although the distinct reporters hold only %d of %s voting power", epoch, sum, total))
			return
		}
		// every stored price is a stake-weighted median of the latest reports
		newP := st.OraclePrices()
		if newP != nil && sum > 0 {
			for _, pr := range newP.List {
				w.St.Check("C18:median-bounds")
				got, _ := new(big.Rat).SetString(pr.Value.String())
				type rep struct {
					v *big.Rat
					w int64
				}
				var rs []rep
				var wsum int64
				for _, v := range sortedKeys(reps) {
					if x, ok := reps[v][pr.Name]; ok && power(v) > 0 {
						rs = append(rs, rep{x, power(v)})
						wsum += power(v)
					}
				}
				if len(rs) == 0 {
					w.Fail("C18", "median-bounds", "unreported", fmt.Sprintf("price %s=%s was stored although no counted report names it", pr.Name, pr.Value))
					return
				}
				// the quorum is owed per price: the validators that reported THIS price hold 66 % (a claim that
				// leaves a price out says nothing about it)
				if old, had := o.prevPrice[pr.Name]; !had || old != pr.Value.String() {
					w.St.Check("C18:quorum-per-price")
					if sdk.NewInt(wsum).MulRaw(100).LT(total.MulRaw(66)) {
						w.Fail("C18", "distinct-quorum", "per-price", fmt.Sprintf("price %s changed to %s at epoch %d although the validators that reported it hold only %d of %s voting power", pr.Name, pr.Value, epoch, wsum, total))
						return
					}
				}
				// weight strictly below / strictly above must each be <= 1/2 + slack
				below, above := int64(0), int64(0)
				eps := new(big.Rat).SetFrac64(1, 1_000_000_000_000_000_000) // Dec rounding of an averaged pair
				lo := new(big.Rat).Sub(got, eps)
				hi := new(big.Rat).Add(got, eps)
				for _, r := range rs {
					if r.v.Cmp(lo) < 0 {
						below += r.w
					}
					if r.v.Cmp(hi) > 0 {
						above += r.w
					}
				}
				// slack: normalisation to 65535 per validator
				slack := new(big.Rat).SetFrac64(nVals+1, 65535)
				half := new(big.Rat).Add(big.NewRat(1, 2), slack)
				fb := new(big.Rat).SetFrac64(below, wsum)
				fa := new(big.Rat).SetFrac64(above, wsum)
				if fb.Cmp(half) > 0 || fa.Cmp(half) > 0 {
					w.Fail("C18", "median-bounds", "not-median", fmt.Sprintf("stored price %s=%s is not a stake-weighted median of the epoch's latest reports (weight below %s, above %s of %d)", pr.Name, pr.Value, fb.FloatString(4), fa.FloatString(4), wsum))
					return
				}
			}
		}
	}
	if np := st.OraclePrices(); np != nil {
		o.prevPrice = map[string]string{}
		for _, pr := range np.List {
			o.prevPrice[pr.Name] = pr.Value.String()
		}
	}
	if hChanged {
		w.St.Probe("nontrivial")
		w.St.Check("C18:holders-two-thirds")
		reps := o.holders[epoch]
		newH := canonHolders(st.OracleHolders())
		sumAll, sumSame := int64(0), int64(0)
		for _, v := range sortedKeys(reps) {
			sumAll += power(v)
			if reps[v] == newH {
				sumSame += power(v)
			}
		}
		if sdk.NewInt(sumAll).MulRaw(100).LT(total.MulRaw(66)) {
			w.Fail("C18", "distinct-quorum", "holders", fmt.Sprintf("holder list changed at epoch %d although the distinct reporters hold only %d of %s voting power", epoch, sumAll, total))
			return
		}
		// MORE than two thirds of stake reported the identical list. No slack is owed for the hub's 65535-slot
		// normalisation: its shares are rounded down, so a sum above 65535*2/3 implies an exact share above 2/3
		lhs := new(big.Rat).SetFrac(big.NewInt(sumSame), total.BigInt())
		if lhs.Cmp(big.NewRat(2, 3)) <= 0 {
			w.Fail("C18", "holders-two-thirds", "adopted", fmt.Sprintf("a holder list was adopted although validators reporting exactly that list hold %d of %s voting power", sumSame, total))
			return
		}
	}
}

// ------------------------------------------------------------------------------------------------
// C19 — fees and commissions are distributed within what was collected.
type C19 struct {
	BaseOracle
	hashCnt map[string]int // tx hash -> transfers executed in this block carrying it (a fee record is keyed by the hash)
	// paid: chain -> transfer id -> the bridge fee its sender paid, in the token's external units (hub units
	// truncated), taken from the request or the observed event itself, never from what the hub stored
	paid map[string]map[uint64]*big.Int
}

// extUnits converts hub units (18 decimals) to a token's external units, truncating.
func extUnits(hubUnits *big.Int, dec uint64) *big.Int {
	if dec >= 18 {
		return new(big.Int).Mul(hubUnits, pow10(dec-18))
	}
	return new(big.Int).Quo(hubUnits, pow10(18-dec))
}

func (o *C19) notePaid(chain string, id uint64, v *big.Int) {
	if o.paid == nil {
		o.paid = map[string]map[uint64]*big.Int{}
	}
	if o.paid[chain] == nil {
		o.paid[chain] = map[uint64]*big.Int{}
	}
	o.paid[chain][id] = v
}

// AfterTx remembers what the sender of every new withdrawal paid as bridge fee.
func (o *C19) AfterTx(w *World, r *TxResult) {
	if r.Tx.Kind != "user_send" || r.Code != 0 {
		return
	}
	t := w.T()
	ch, denom := r.Tx.Meta["chain"], r.Tx.Meta["denom"]
	tk := w.Cfg.Token(ch, denom)
	if tk == nil {
		return
	}
	fee := bigOf(r.Tx.Meta["fee"])
	if fee.Sign() < 0 {
		return
	}
	for id := range t.Cur.Pool[ch] {
		if _, old := t.Prev.Pool[ch][id]; old {
			continue
		}
		if _, oldb := t.Prev.InBatch[ch][id]; oldb {
			continue
		}
		o.notePaid(ch, id, extUnits(fee, tk.Decimals))
	}
}

// notePaidByEvents does the same for the transfers that this EndBlock created from observed chain-to-chain deposits.
func (o *C19) notePaidByEvents(w *World) {
	t := w.T()
	// whatever this EndBlock created starts without a record (transfer ids may be handed out again after a restart)
	for ch, pool := range t.Cur.Pool {
		for id := range pool {
			if _, old := t.PreEnd.Pool[ch][id]; !old {
				if _, oldb := t.PreEnd.InBatch[ch][id]; !oldb {
					delete(o.paid[ch], id)
				}
			}
		}
	}
	cnt := map[string]int{}
	for _, a := range t.Applied {
		if e, ok := a.Event.(*mhub2types.TransferToChainEvent); ok {
			cnt[e.TxHash]++
		}
	}
	for _, a := range t.Applied {
		e, ok := a.Event.(*mhub2types.TransferToChainEvent)
		if !ok || cnt[e.TxHash] != 1 || e.ReceiverChainId == "hub" {
			continue
		}
		src := w.TokenOf(a.Chain, e.ExternalCoinId)
		if src == nil {
			continue
		}
		dst := w.Cfg.Token(e.ReceiverChainId, src.Denom)
		if dst == nil || e.Fee.IsNil() || e.Fee.IsNegative() {
			continue
		}
		hubFee := floorHub(e.Fee.BigInt(), src.Decimals)
		for id, x := range t.Cur.Pool[e.ReceiverChainId] {
			if _, old := t.PreEnd.Pool[e.ReceiverChainId][id]; old || x.TxHash != e.TxHash {
				continue
			}
			if _, oldb := t.PreEnd.InBatch[e.ReceiverChainId][id]; oldb {
				continue
			}
			o.notePaid(e.ReceiverChainId, id, extUnits(hubFee, dst.Decimals))
		}
	}
}

func (*C19) Property() string { return "C19" }

func floorHub(v *big.Int, dec uint64) *big.Int { return ratFloor(ToHubUnits(v, dec)) }

func (o *C19) AfterEnd(w *World) {
	t := w.T()
	o.notePaidByEvents(w)
	// executions applied by this EndBlock, grouped by the hub denomination they pay out in: payouts of
	// one denomination are attributable to the group, not to a single execution
	type exec struct {
		chain string
		e     *mhub2types.BatchExecutedEvent
		b     *mhub2types.BatchTx
		tk    *TokenCfg
	}
	groups := map[string][]exec{}
	o.hashCnt = map[string]int{}
	for _, a := range t.Applied {
		e, ok := a.Event.(*mhub2types.BatchExecutedEvent)
		if !ok {
			continue
		}
		b := t.PreEnd.Batches[a.Chain][bkey(e.ExternalCoinId, e.BatchNonce)]
		if b == nil {
			continue
		}
		tk := w.TokenOf(a.Chain, b.ExternalTokenId)
		if tk == nil {
			continue
		}
		groups[tk.Denom] = append(groups[tk.Denom], exec{a.Chain, e, b, tk})
		for _, tx := range b.Transactions {
			o.hashCnt[tx.TxHash]++
		}
	}
	for _, denom := range sortedKeys(groups) {
		g := groups[denom]
		if len(g) > 1 {
			w.St.Probe("several-executions-of-a-denom-in-block")
		}
		o.checkGroup(w, denom, len(g), func(f func(chain string, e *mhub2types.BatchExecutedEvent, b *mhub2types.BatchTx, tk *TokenCfg)) {
			for _, x := range g {
				f(x.chain, x.e, x.b, x.tk)
			}
		})
		if w.Stopped() {
			return
		}
	}
}

func (o *C19) checkGroup(w *World, denom string, n int, each func(func(chain string, e *mhub2types.BatchExecutedEvent, b *mhub2types.BatchTx, tk *TokenCfg))) {
	t := w.T()
	st := w.ReadState()
	mtk := w.Cfg.TokenByDenom("minter", denom)
	if mtk == nil {
		return
	}
	w.St.Check("C19:execution")
	w.St.Probe("nontrivial")
	C, F := new(big.Int), new(big.Int)
	feeBy := map[string]*big.Int{} // refund address -> hub-unit fees paid
	cntBy := map[string]int{}
	payers := map[string]bool{}
	what := ""
	each(func(chain string, e *mhub2types.BatchExecutedEvent, b *mhub2types.BatchTx, tk *TokenCfg) {
		sumC, sumF := new(big.Int), new(big.Int)
		for _, tx := range b.Transactions {
			if p := o.paid[chain][tx.Id]; p != nil {
				w.St.Check("C19:fee-as-paid")
				if tx.Fee.Amount.BigInt().Cmp(p) > 0 {
					w.Fail("C19", "fee-above-paid", "dec"+strconv.FormatUint(tk.Decimals, 10), fmt.Sprintf("%s transfer %d of executed batch %d carries a fee of %s external units (%d decimals), from which reimbursement, refund and fee record are computed; its sender paid %s", chain, tx.Id, b.BatchNonce, tx.Fee.Amount, tk.Decimals, p))
					return
				}
			}
			sumC.Add(sumC, tx.ValCommission.Amount.BigInt())
			sumF.Add(sumF, tx.Fee.Amount.BigInt())
			k := strings.ToLower(tx.RefundAddress)
			if feeBy[k] == nil {
				feeBy[k] = new(big.Int)
			}
			feeBy[k].Add(feeBy[k], floorHub(tx.Fee.Amount.BigInt(), tk.Decimals))
			cntBy[k]++
		}
		C.Add(C, floorHub(sumC, tk.Decimals))
		F.Add(F, floorHub(sumF, tk.Decimals))
		payers[strings.ToLower(e.FeePayer)] = true
		if what != "" {
			what += " + "
		}
		what += fmt.Sprintf("%s batch %d", chain, b.BatchNonce)
	})
	// new transfers on the Minter chain created by this EndBlock in this denomination
	var comm, fees []*mhub2types.SendToExternal
	for id, x := range t.Cur.Pool["minter"] {
		if _, old := t.PreEnd.Pool["minter"][id]; old {
			continue
		}
		if _, oldb := t.PreEnd.InBatch["minter"][id]; oldb {
			continue
		}
		if x.Token.ExternalTokenId != mtk.ExtID {
			continue
		}
		switch x.TxHash {
		case "#commission":
			comm = append(comm, x)
		case "#fee":
			fees = append(fees, x)
		}
	}
	sort.Slice(comm, func(i, j int) bool { return comm[i].Id < comm[j].Id })
	sort.Slice(fees, func(i, j int) bool { return fees[i].Id < fees[j].Id })
	if os.Getenv("MHUBSIM_DEBUG") != "" {
		fmt.Fprintf(os.Stderr, "C19 group %s: %s C=%s F=%s\n", denom, what, C, F)
		for _, x := range comm {
			fmt.Fprintf(os.Stderr, "  comm id=%d to=%s amt=%s\n", x.Id, x.ExternalRecipient, x.Token.Amount)
		}
		for _, x := range fees {
			fmt.Fprintf(os.Stderr, "  fee id=%d to=%s amt=%s\n", x.Id, x.ExternalRecipient, x.Token.Amount)
		}
	}
	// --- commission: proportional to voting power, sum <= collected
	paid := new(big.Int)
	for _, x := range comm {
		paid.Add(paid, x.Token.Amount.BigInt())
		if x.Token.Amount.IsNegative() {
			w.Fail("C19", "commission-split", "negative", "negative commission payout")
			return
		}
	}
	if paid.Cmp(C) > 0 {
		w.Fail("C19", "commission-split", "sum", fmt.Sprintf("%s: validators were paid %s in commission, %s was collected", what, paid, C))
		return
	}
	if len(comm) > 0 {
		w.St.Probe("commission-paid")
		mem := currentMembers(st, "minter")
		var S int64
		byAddr := map[[20]byte]int64{}
		for _, m := range mem {
			S += m.stake
			byAddr[m.addr] += m.stake
		}
		gotC := map[[20]byte]*big.Int{}
		var order [][20]byte
		for _, x := range comm {
			k := parse20(x.ExternalRecipient)
			if _, ok := byAddr[k]; !ok {
				w.Fail("C19", "commission-split", "stranger", fmt.Sprintf("commission paid to %s, which is not the Minter key of a bonded validator", x.ExternalRecipient))
				return
			}
			if gotC[k] == nil {
				gotC[k] = new(big.Int)
				order = append(order, k)
			}
			gotC[k].Add(gotC[k], x.Token.Amount.BigInt())
		}
		for _, k := range order {
			s := byAddr[k]
			// proportional to voting power: each share of what was paid out (an execution whose payout
			// fails as a whole, e.g. for want of a price, pays nobody: 'paid' may be below 'collected')
			exact := new(big.Rat).Mul(new(big.Rat).SetInt(paid), new(big.Rat).SetFrac64(s, S))
			diff := new(big.Rat).Sub(new(big.Rat).SetInt(gotC[k]), exact)
			tol := new(big.Rat).Add(big.NewRat(int64(n)*int64(len(mem)+1), 1), new(big.Rat).Mul(new(big.Rat).SetInt(C), new(big.Rat).SetFrac64(int64(len(mem))+1, 1<<32)))
			if diff.Abs(diff).Cmp(tol) > 0 {
				w.Fail("C19", "commission-split", "proportion", fmt.Sprintf("validator with %d of %d power was paid %s of the %s paid in commission (exact share %s)", s, S, gotC[k], paid, exact.FloatString(2)))
				return
			}
		}
	}
	// --- fees: reimbursement + refunds <= collected; each user's refund <= that user's fee
	tot := new(big.Int)
	gotBy := map[string]*big.Int{}
	for _, x := range fees {
		tot.Add(tot, x.Token.Amount.BigInt())
		k := strings.ToLower(x.ExternalRecipient)
		if gotBy[k] == nil {
			gotBy[k] = new(big.Int)
		}
		gotBy[k].Add(gotBy[k], x.Token.Amount.BigInt())
	}
	w.St.Check("C19:reimburse-cap")
	if tot.Cmp(F) > 0 {
		w.Fail("C19", "reimburse-cap", "sum", fmt.Sprintf("%s: %s was paid out of fees, %s was collected", what, tot, F))
		return
	}
	for _, k := range sortedKeys(gotBy) {
		if payers[k] {
			w.St.Probe("relayer-reimbursed")
			continue
		}
		w.St.Check("C19:refund-cap")
		w.St.Probe("fee-refunded")
		lim := feeBy[k]
		if lim == nil {
			w.Fail("C19", "refund-cap", "stranger", fmt.Sprintf("fee refund to %s, which paid no fee in %s", k, what))
			return
		}
		if gotBy[k].Cmp(lim) > 0 {
			w.Fail("C19", "refund-cap", "amount", fmt.Sprintf("%s was refunded %s of fees but paid only %s in %s", k, gotBy[k], lim, what))
			return
		}
	}
	// --- per-transfer fee record: within [0, fee paid], in external units
	each(func(chain string, e *mhub2types.BatchExecutedEvent, b *mhub2types.BatchTx, tk *TokenCfg) {
		if w.Stopped() {
			return
		}
		for _, tx := range b.Transactions {
			if strings.HasPrefix(tx.TxHash, "#") {
				continue
			}
			rec := st.FeeRecord(tx.TxHash)
			if rec == nil {
				if tx.TxHash == "" {
					continue
				}
				// the transfer was executed and its fee was collected: "the fee actually kept" must be reported, also
				// when nothing could be paid out of it
				w.St.Check("C19:fee-record-range")
				w.Fail("C19", "fee-record-range", "missing", fmt.Sprintf("%s transfer %d (hash %s) of executed batch %d has no fee record although its fee of %s was collected", chain, tx.Id, tx.TxHash, b.BatchNonce, tx.Fee.Amount))
				return
			}
			if o.hashCnt[tx.TxHash] != 1 {
				continue // several transfers of one hub transaction executed together: the record speaks for the last one
			}
			w.St.Check("C19:fee-record-range")
			if rec.ExternalFee.IsNegative() || rec.ExternalFee.GT(tx.Fee.Amount) {
				w.Fail("C19", "fee-record-range", "dec"+strconv.FormatUint(tk.Decimals, 10), fmt.Sprintf("fee record of %s reports %s kept of a fee of %s (token with %d external decimals)", tx.TxHash, rec.ExternalFee, tx.Fee.Amount, tk.Decimals))
				return
			}
			// the fee kept is the fee paid minus the refund, in external units (when this user's refund is attributable)
			k := strings.ToLower(tx.RefundAddress)
			if cntBy[k] == 1 && !payers[k] && o.hashCnt[tx.TxHash] == 1 {
				ref := gotBy[k]
				if ref == nil {
					ref = new(big.Int)
				}
				// refund in external units, rounded either way by at most one unit
				var refExt *big.Rat
				if tk.Decimals >= 18 {
					refExt = new(big.Rat).Mul(new(big.Rat).SetInt(ref), new(big.Rat).SetInt(pow10(tk.Decimals-18)))
				} else {
					refExt = new(big.Rat).Quo(new(big.Rat).SetInt(ref), new(big.Rat).SetInt(pow10(18-tk.Decimals)))
				}
				kept := new(big.Rat).Sub(new(big.Rat).SetInt(tx.Fee.Amount.BigInt()), refExt)
				diff := new(big.Rat).Sub(new(big.Rat).SetInt(rec.ExternalFee.BigInt()), kept)
				if diff.Abs(diff).Cmp(big.NewRat(1, 1)) > 0 {
					w.Fail("C19", "fee-record-range", "kept:dec"+strconv.FormatUint(tk.Decimals, 10), fmt.Sprintf("fee record of %s reports %s kept; fee paid %s minus refund %s (hub units) is %s external units", tx.TxHash, rec.ExternalFee, tx.Fee.Amount, ref, kept.FloatString(2)))
					return
				}
			}
		}
	})
}
