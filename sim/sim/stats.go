package sim

import "sort"

// Stats are measured counters of one run (merged across runs for evidence).
type Stats struct {
	Blocks     int64            `json:"blocks"`
	Txs        int64            `json:"txs"`
	TxsFailed  int64            `json:"txs_failed"`
	SimSeconds int64            `json:"sim_seconds"`
	Counters   map[string]int64 `json:"counters"`
	Faults     map[string]int64 `json:"faults"` // fault kind -> times it actually fired
	Probes     map[string]int64 `json:"probes"` // rare conditions reached
	Checks     map[string]int64 `json:"checks"` // oracle id -> evaluations
}

func NewStats() *Stats {
	return &Stats{Counters: map[string]int64{}, Faults: map[string]int64{}, Probes: map[string]int64{}, Checks: map[string]int64{}}
}

func (s *Stats) Inc(k string)           { s.Counters[k]++ }
func (s *Stats) Fault(k string)         { s.Faults[k]++ }
func (s *Stats) Probe(k string)         { s.Probes[k]++ }
func (s *Stats) Check(k string)         { s.Checks[k]++ }
func (s *Stats) CheckN(k string, n int) { s.Checks[k] += int64(n) }

func (s *Stats) Merge(o *Stats) {
	s.Blocks += o.Blocks
	s.Txs += o.Txs
	s.TxsFailed += o.TxsFailed
	s.SimSeconds += o.SimSeconds
	for k, v := range o.Counters {
		s.Counters[k] += v
	}
	for k, v := range o.Faults {
		s.Faults[k] += v
	}
	for k, v := range o.Probes {
		s.Probes[k] += v
	}
	for k, v := range o.Checks {
		s.Checks[k] += v
	}
}

func sortedI64Keys(m map[string]int64) []string {
	ks := make([]string, 0, len(m))
	for k := range m {
		ks = append(ks, k)
	}
	sort.Strings(ks)
	return ks
}
