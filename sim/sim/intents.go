package sim

import (
	"encoding/json"
	"fmt"
)

// Intent is one step of a run. Executing an intent is a deterministic function of (world, intent);
// an intent that meets a state where it makes no sense is a no-op, so deleting neighbours during
// minimisation never invalidates a trace.
type Intent struct {
	T      string   `json:"t"`
	V      int      `json:"v,omitempty"`
	U      int      `json:"u,omitempty"`
	Chain  string   `json:"chain,omitempty"`
	Chain2 string   `json:"chain2,omitempty"`
	Denom  string   `json:"denom,omitempty"`
	Amt    string   `json:"amt,omitempty"`
	Fee    string   `json:"fee,omitempty"`
	Dest   string   `json:"dest,omitempty"`
	N      int      `json:"n,omitempty"`
	Dt     int      `json:"dt,omitempty"`
	Op     string   `json:"op,omitempty"`
	Pick   int      `json:"pick,omitempty"`
	Mask   uint64   `json:"mask,omitempty"`
	Mut    string   `json:"mut,omitempty"`
	Net    string   `json:"net,omitempty"`
	ID     uint64   `json:"id,omitempty"`
	Miss   []int    `json:"miss,omitempty"`
	Skip   int      `json:"skip,omitempty"`
	As     string   `json:"as,omitempty"`
	Vals   []string `json:"vals,omitempty"`
	Gas    string   `json:"gas,omitempty"`
}

func (in Intent) String() string {
	b, _ := json.Marshal(in)
	return string(b)
}

// Exec runs one intent.
func (w *World) Exec(ix int, in Intent) {
	if w.Stopped() {
		return
	}
	w.CurIntent = ix
	w.Logf("intent %d %s", ix, in.String())
	w.St.Inc("intent:" + in.T)
	switch in.T {
	case "block":
		n := in.N
		if n < 1 {
			n = 1
		}
		for i := 0; i < n && !w.Stopped(); i++ {
			w.ProduceBlock(in.Dt, in.Miss)
		}
	case "user_send":
		w.doUserSend(in)
	case "user_cancel":
		w.doUserCancel(in)
	case "req_batch":
		w.doRequestBatch(in)
	case "ext_deposit":
		w.doExtDeposit(in)
	case "orch_poll":
		w.doOrchPoll(in)
	case "orch_sign":
		w.doOrchSign(in)
	case "relay":
		w.doRelay(in)
	case "stall":
		if in.Op == "on" {
			if !w.Stalled[in.Chain] {
				w.St.Fault("ext_stall")
			}
			w.Stalled[in.Chain] = true
		} else {
			w.Stalled[in.Chain] = false
		}
	case "ext_tick":
		w.doExtTick(in)
	case "oracle_claim":
		w.doOracleClaim(in)
	case "stake":
		w.doStake(in)
	case "byz_claim":
		w.doByzClaim(in)
	case "set_keys":
		w.doSetKeys(in)
	case "confirm_fuzz":
		w.doConfirmFuzz(in)
	case "adv_event":
		w.doAdvEvent(in)
	case "gov":
		w.doGov(in)
	case "node_restart":
		w.doNodeRestart(in)
	case "export_import":
		w.doExportImport(in)
	case "logic_call":
		w.doLogicCall(in)
	case "settle":
		w.settle(in.N)
	default:
		panic(fmt.Sprintf("unknown intent %q", in.T))
	}
}

// RunIntents executes a whole trace and the end-of-run checks.
func (w *World) RunIntents(ins []Intent) {
	for i, in := range ins {
		if w.Stopped() {
			break
		}
		w.Exec(i, in)
	}
	if !w.Stopped() {
		for _, o := range w.Oracles {
			o.Finish(w)
			if w.Stopped() {
				break
			}
		}
	}
}
