#!/bin/bash
# Build the simulator once (warms the Go build cache) and run the harness lint.
set -e
export GOFLAGS=-mod=mod GOPROXY=off GOSUMDB=off GOTOOLCHAIN=local
cd /verif/sim
mkdir -p /verif/bin /verif/evidence /verif/replays
go1.26.8 build -o /verif/bin/mhubsim ./cmd/mhubsim
/verif/sim/conn/gen_relay.sh
go1.26.8 test -c -vet=off -o /verif/bin/c20.test ./conn
# harness lint: the simulator itself must never range over a map to make a decision
if grep -n "\.Range(" -r /verif/sim --include=*.go; then echo "sync.Map.Range in harness" >&2; exit 1; fi
echo setup ok
