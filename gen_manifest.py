#!/usr/bin/env python3
# Generates /verif/MANIFEST.json from the table below (kept in one place so it stays valid).
import json
CLAIMED = {
 "C05": ("exploration", "Seeded whole-system simulation: the real app (cache-wrapped multistore as in a node) is driven through ABCI by three workload profiles (full bridge loop with transport faults, adversarial full-quorum events that merely pass stateless validation incl. negative/2^255-scale amounts and fees, and size stress with 70-130 pool entries written, timed out and expired in one block). Every BeginBlock/EndBlock runs under a panic handler and a wall-clock watchdog; a panic or a parked-on-lock call with x/mhub2 or x/oracle frames is the violation.", "3/C05", "deterministic simulation: seeded intent traces + adversarial quorum + size stress, ABCI watchdog"),
 "C06": ("exploration", "Three in-process replicas of the real app execute the same seeded blocks; after every ABCI call tx codes, event lists and app hashes are compared (map iteration order and goroutine scheduling differ per replica instance).", "3/C06", "deterministic simulation: replica comparison after every block"),
}
NA_REASON = "check under construction in this session (design in DESIGN.md section 3); not claimed until its oracle is built and validated"
props = [json.loads(l) for l in open('/verif/properties.jsonl')]
checks, na = [], []
for p in props:
    pid = p['id']
    if pid in CLAIMED:
        cat, text, ref, tech = CLAIMED[pid]
        checks.append({
            "property_id": pid,
            "quick_cmd": f"/verif/run_check.sh {pid} quick",
            "thorough_cmd": f"/verif/run_check.sh {pid} thorough",
            "evidence_file": f"/verif/evidence/{pid}.json",
            "replay_cmd_template": "/verif/bin/mhubsim replay {path}",
            "engine": "mhubsim",
            "level_claimed": {"category": cat, "text": text, "design_ref": ref},
            "level_note": "Hub state machine is the real code; Tendermint is a totally ordered block stream; Hub2.sol and the Minter multisig are Go models transcribed from the sources; orchestrators/relayers/connector main loop are simulated actors. A clean batch is evidence, not proof.",
            "technique": tech,
        })
    else:
        na.append({"property_id": pid, "reason": NA_REASON})
m = {
 "version": 1,
 "setup_cmd": "/verif/setup.sh",
 "hooks": {"guard": "verif", "enable": "no source hook is needed: the harness module replaces github.com/MinterTeam/mhub2/module and /minter-connector with /repo and uses exported seams only (app.GetKey, BaseApp.NewContext, api_service.ClientService)", "baseline_off_cmd": "/verif/baseline_off.sh", "source_commits": [], "add_only": True},
 "engines": [{"name": "mhubsim", "path": "/verif/sim", "serves_properties": sorted(CLAIMED), "kind_free_text": "deterministic whole-system simulator with fault injection (Go): real hub app in-process + external chain models + seeded intent traces + replay/minimise"}],
 "checks": checks,
 "not_applicable": na,
 "notes": "exit 0 held / 1 VIOLATION / 2 infrastructure. Known findings: /verif/known_findings.json. Repairs of genuine defects are 'fix:' commits in /repo, listed there as fixed entries.",
}
json.dump(m, open('/verif/MANIFEST.json','w'), indent=1)
print("claimed", len(checks), "na", len(na))
