// Package ext holds executable reference models of the bridge's external custodians:
// the Hub2.sol contract (Ethereum and BSC) and the Minter multisig. They are transcribed
// from solidity/contracts/Hub2.sol and from the connector's relay code, and they use their
// OWN ABI encoder and keccak (below) — not go-ethereum's abi package and not the hub's
// packCall — so that an encoding slip on the hub side shows up as a disagreement.
package ext

import (
	"encoding/hex"
	"math/big"
	"strings"

	"golang.org/x/crypto/sha3"
)

func Keccak(data ...[]byte) [32]byte {
	h := sha3.NewLegacyKeccak256()
	for _, d := range data {
		h.Write(d)
	}
	var out [32]byte
	copy(out[:], h.Sum(nil))
	return out
}

// ---- Solidity abi.encode for the value kinds Hub2.sol hashes.

type abiVal interface{ isDyn() bool }

type Word [32]byte   // bytes32 / uint256 / address (left padded)
type WordArr []Word  // uint256[] / address[]
type DynBytes []byte // bytes

func (Word) isDyn() bool     { return false }
func (WordArr) isDyn() bool  { return true }
func (DynBytes) isDyn() bool { return true }

func U256(v *big.Int) Word {
	var w Word
	if v.Sign() < 0 || v.BitLen() > 256 {
		// solidity cannot represent it; encode modulo 2^256 like a cast would, callers reject earlier
		m := new(big.Int).Lsh(big.NewInt(1), 256)
		v = new(big.Int).Mod(v, m)
	}
	b := v.Bytes()
	copy(w[32-len(b):], b)
	return w
}

func U64(v uint64) Word { return U256(new(big.Int).SetUint64(v)) }

// Addr parses a hex address (with or without 0x, any case) into a left-padded word.
func Addr(s string) Word {
	var w Word
	a := ParseAddr(s)
	copy(w[12:], a[:])
	return w
}

func ParseAddr(s string) [20]byte {
	var a [20]byte
	s = strings.TrimPrefix(strings.TrimPrefix(s, "0x"), "0X")
	if len(s)%2 == 1 {
		s = "0" + s
	}
	b, _ := hex.DecodeString(s)
	if len(b) > 20 {
		b = b[len(b)-20:]
	}
	copy(a[20-len(b):], b)
	return a
}

func AddrHexLower(a [20]byte) string { return "0x" + hex.EncodeToString(a[:]) }

// B32Right right-pads (bytes32 from a short string, as solidity string->bytes32 literals do).
func B32Right(b []byte) Word {
	var w Word
	copy(w[:], b)
	return w
}

func AbiEncode(vals ...abiVal) []byte {
	headLen := 32 * len(vals)
	var head, tail []byte
	for _, v := range vals {
		if !v.isDyn() {
			w := v.(Word)
			head = append(head, w[:]...)
			continue
		}
		off := U64(uint64(headLen + len(tail)))
		head = append(head, off[:]...)
		switch x := v.(type) {
		case WordArr:
			l := U64(uint64(len(x)))
			tail = append(tail, l[:]...)
			for _, e := range x {
				tail = append(tail, e[:]...)
			}
		case DynBytes:
			l := U64(uint64(len(x)))
			tail = append(tail, l[:]...)
			tail = append(tail, x...)
			if pad := (32 - len(x)%32) % 32; pad > 0 {
				tail = append(tail, make([]byte, pad)...)
			}
		}
	}
	return append(head, tail...)
}

var (
	methodCheckpoint = B32Right([]byte("checkpoint"))
	methodBatch      = B32Right([]byte("transactionBatch"))
	methodLogicCall  = B32Right([]byte("logicCall"))
)

type Member struct {
	Addr  [20]byte
	Power uint64
}

// MakeCheckpoint = Hub2.sol makeCheckpoint.
func MakeCheckpoint(members []Member, nonce uint64, gravityID Word) [32]byte {
	addrs := make(WordArr, len(members))
	pows := make(WordArr, len(members))
	for i, m := range members {
		var w Word
		copy(w[12:], m.Addr[:])
		addrs[i] = w
		pows[i] = U64(m.Power)
	}
	return Keccak(AbiEncode(gravityID, methodCheckpoint, U64(nonce), addrs, pows))
}

type BatchCall struct {
	Amounts      []*big.Int
	Destinations [][20]byte
	Fees         []*big.Int
	Nonce        uint64
	Token        [20]byte
	Timeout      uint64
}

// BatchHash = the digest submitBatch checks signatures against.
func BatchHash(b BatchCall, gravityID Word) [32]byte {
	am := make(WordArr, len(b.Amounts))
	ds := make(WordArr, len(b.Destinations))
	fs := make(WordArr, len(b.Fees))
	for i := range b.Amounts {
		am[i] = U256(b.Amounts[i])
	}
	for i := range b.Destinations {
		var w Word
		copy(w[12:], b.Destinations[i][:])
		ds[i] = w
	}
	for i := range b.Fees {
		fs[i] = U256(b.Fees[i])
	}
	var tok Word
	copy(tok[12:], b.Token[:])
	return Keccak(AbiEncode(gravityID, methodBatch, am, ds, fs, U64(b.Nonce), tok, U64(b.Timeout)))
}

type LogicCall struct {
	TransferAmounts   []*big.Int
	TransferTokens    [][20]byte
	FeeAmounts        []*big.Int
	FeeTokens         [][20]byte
	LogicContract     [20]byte
	Payload           []byte
	Timeout           uint64
	InvalidationID    [32]byte
	InvalidationNonce uint64
}

func LogicCallHash(c LogicCall, gravityID Word) [32]byte {
	ta := make(WordArr, len(c.TransferAmounts))
	tt := make(WordArr, len(c.TransferTokens))
	fa := make(WordArr, len(c.FeeAmounts))
	ft := make(WordArr, len(c.FeeTokens))
	for i := range c.TransferAmounts {
		ta[i] = U256(c.TransferAmounts[i])
	}
	for i := range c.TransferTokens {
		var w Word
		copy(w[12:], c.TransferTokens[i][:])
		tt[i] = w
	}
	for i := range c.FeeAmounts {
		fa[i] = U256(c.FeeAmounts[i])
	}
	for i := range c.FeeTokens {
		var w Word
		copy(w[12:], c.FeeTokens[i][:])
		ft[i] = w
	}
	var lc Word
	copy(lc[12:], c.LogicContract[:])
	return Keccak(AbiEncode(gravityID, methodLogicCall, ta, tt, fa, ft, lc, DynBytes(c.Payload), U64(c.Timeout), Word(c.InvalidationID), U64(c.InvalidationNonce)))
}

// EthSignedDigest = keccak256("\x19Ethereum Signed Message:\n32" ++ hash), as verifySig computes.
func EthSignedDigest(h [32]byte) [32]byte {
	return Keccak([]byte("\x19Ethereum Signed Message:\n32"), h[:])
}
