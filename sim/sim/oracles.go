package sim

// OraclesFor returns the oracles that decide one property.
func OraclesFor(prop string) []Oracle {
	t := &Tracker{}
	switch prop {
	case "C01":
		return []Oracle{t, &C01{}}
	case "C02":
		return []Oracle{t, &C02{}}
	case "C03":
		return []Oracle{t, &C03{}}
	case "C04":
		return []Oracle{t, &C04{}}
	case "C05":
		return []Oracle{&C05{}}
	case "C06":
		return []Oracle{&C06{}}
	case "C07":
		return []Oracle{t, &C07{}}
	case "C08":
		return []Oracle{t, &C08{}}
	case "C09":
		return []Oracle{t, &C09{}}
	case "C10":
		return []Oracle{t, &C10{}}
	case "C11":
		return []Oracle{t, &C11{}}
	case "C12":
		return []Oracle{t, &C12{}}
	case "C13":
		return []Oracle{t, &C13{}}
	case "C14":
		return []Oracle{t, &C14{}}
	case "C15":
		return []Oracle{t, &C15{}}
	case "C16":
		return []Oracle{t, &C16{}}
	case "C17":
		return []Oracle{t, &C17{}}
	case "C18":
		return []Oracle{t, &C18{}}
	case "C19":
		return []Oracle{t, &C19{}}
	}
	return nil
}

// C05 — block processing never panics or deadlocks. The crash itself is caught by the block loop
// (hub.Node.guarded); this oracle only counts evaluations and reach probes.
type C05 struct{ BaseOracle }

func (*C05) Property() string { return "C05" }
func (*C05) AfterBegin(w *World) {
	w.St.Check("C05:beginblock-returned")
}
func (*C05) AfterEnd(w *World) {
	w.St.Check("C05:endblock-returned")
	st := w.ReadState()
	for _, ch := range Chains {
		if n := len(st.Pool(ch)); n > 64 {
			w.St.Probe("pool>64")
			if n > 100 {
				w.St.Probe("pool>100")
			}
		}
		for _, b := range st.Batches(ch) {
			if len(b.Transactions) > 64 {
				w.St.Probe("batch>64")
			}
		}
	}
	if len(w.LastBlockTxs) > 0 {
		w.St.Probe("nontrivial")
	}
}

// C06 — determinism: R replicas fed the same blocks must agree on everything observable.
type C06 struct{ BaseOracle }

func (*C06) Property() string { return "C06" }
func (*C06) AfterCommit(w *World) {
	w.St.Check("C06:block-compared")
	if len(w.LastBlockTxs) > 0 {
		w.St.Probe("nontrivial")
	}
	if w.Mismatch != nil {
		detail := w.Mismatch.Detail
		// pinpoint the first differing KV pair
		if len(w.Nodes) > 1 {
			for _, store := range []string{"mhub2", "oracle", "bank", "staking"} {
				k0, v0 := ReadStateOf(w.Nodes[0]).StoreDump(store)
				for i := 1; i < len(w.Nodes); i++ {
					k1, v1 := ReadStateOf(w.Nodes[i]).StoreDump(store)
					if d := firstDiff(k0, v0, k1, v1); d != "" {
						detail += "; " + store + ": " + d
						break
					}
				}
			}
		}
		w.Fail("C06", w.Mismatch.What, "replicas", detail)
	}
}
