// Package sim is the deterministic whole-system simulator: one process holds the real hub
// replicas, the external-chain models and every off-chain actor; a single PRNG (from the run seed)
// generates a list of intents, and executing the intents is a pure function of the list.
package sim

import (
	"fmt"
	"math/rand"
)

var Chains = []string{"ethereum", "bsc", "minter"}

// TokenCfg is one bridged (denom, chain) pair.
type TokenCfg struct {
	ID         uint64 `json:"id"`
	Denom      string `json:"denom"`
	Chain      string `json:"chain"`
	ExtID      string `json:"ext_id"`
	Decimals   uint64 `json:"decimals"`
	Commission string `json:"commission"` // sdk.Dec string
}

// Config is the per-run ("swarm") configuration. It is stored in replay files.
type Config struct {
	Profile   string     `json:"profile"`
	NVals     int        `json:"n_vals"`
	Stakes    []int64    `json:"stakes"` // consensus power units (tokens = power * 1e6)
	Keys      [][]bool   `json:"keys"`   // Keys[v][chainIdx]: delegate key registered at genesis
	NUsers    int        `json:"n_users"`
	Tokens    []TokenCfg `json:"tokens"`
	GravityID string     `json:"gravity_id"`
	// contract power threshold as numerator/denominator of 2^32
	ThresholdNum uint64 `json:"threshold_num"`
	ThresholdDen uint64 `json:"threshold_den"`

	TargetEthTxTimeoutMs uint64 `json:"target_eth_tx_timeout_ms"`
	OutgoingTxTimeoutMs  uint64 `json:"outgoing_tx_timeout_ms"`
	AvgBlockMs           uint64 `json:"avg_block_ms"`
	AvgEthBlockMs        uint64 `json:"avg_eth_block_ms"`
	AvgBscBlockMs        uint64 `json:"avg_bsc_block_ms"`
	EthStartHeight       uint64 `json:"eth_start_height"`

	Replicas      int    `json:"replicas"`
	UnbondingSecs int64  `json:"unbonding_secs"`
	MaxValidators uint32 `json:"max_validators"`
	EdgeKeys      bool   `json:"edge_keys,omitempty"` // validators 0 and 1 use external addresses starting with 0xff / 0x00
	EdgeOper      bool   `json:"edge_oper,omitempty"` // validator 0 / 1: operator and orchestrator ACCOUNT addresses starting with 0xff / 0x00
	HolderTier    []int  `json:"holder_tier"`         // per user: -1 none, else tier index 0..5 (value exactly at tier), 6+ = just below tier k-6
	WithPrices    bool   `json:"with_prices"`         // oracle prices present at genesis
	UserFunds     string `json:"user_funds"`          // hub-side initial balance per bridged denom (backed by pre-locked custody)
	// the bridge has been running for a while: batch nonces on Ethereum and BSC continue from here (byte and word
	// boundaries of the counter are a few batches away)
	BatchNonceStart uint64 `json:"batch_nonce_start,omitempty"`
	// a migration genesis: two batches of earlier days are still in flight on each EVM chain (only where replicas are
	// compared: the C06 profile)
	GenesisOutgoing bool `json:"genesis_outgoing,omitempty"`
	// SignedSignerSetTxsWindow in blocks (0 = the default 10000, under which the pruning of old signer sets never runs in a simulated history)
	SignerSetWindow uint64 `json:"signer_set_window,omitempty"`
}

func (c *Config) ChainIdx(chain string) int {
	for i, x := range Chains {
		if x == chain {
			return i
		}
	}
	return -1
}

func (c *Config) Token(chain, denom string) *TokenCfg {
	for i := range c.Tokens {
		if c.Tokens[i].Chain == chain && c.Tokens[i].Denom == denom {
			return &c.Tokens[i]
		}
	}
	return nil
}

func (c *Config) TokenByExt(chain, ext string) *TokenCfg {
	for i := range c.Tokens {
		if c.Tokens[i].Chain == chain && c.Tokens[i].ExtID == ext {
			return &c.Tokens[i]
		}
	}
	return nil
}

func (c *Config) TokenByDenom(chain, denom string) *TokenCfg {
	for i := range c.Tokens {
		if c.Tokens[i].Chain == chain && c.Tokens[i].Denom == denom {
			return &c.Tokens[i]
		}
	}
	return nil
}

func (c *Config) Denoms() []string {
	var out []string
	seen := map[string]bool{}
	for _, t := range c.Tokens {
		if !seen[t.Denom] {
			seen[t.Denom] = true
			out = append(out, t.Denom)
		}
	}
	return out
}

// ---- swarm generation

var decChoices = []uint64{0, 6, 8, 18, 18, 18, 24}
var commChoices = []string{"0", "0.001", "0.01", "0.01", "0.5", "0.999999999999999999"}

func pick[T any](r *rand.Rand, xs []T) T { return xs[r.Intn(len(xs))] }

func ethTokenAddr(i int) string {
	// mixed-case (EIP-55-like irrelevant) 42-char hex ids
	return fmt.Sprintf("0x%040x", 0xA0000000+uint64(i)*0x1111)
}

// GenConfig draws a run configuration. profile biases some choices.
func GenConfig(r *rand.Rand, profile string) Config {
	c := Config{Profile: profile}
	c.NVals = 1 + r.Intn(5)
	if r.Intn(4) == 0 {
		c.NVals = 3 + r.Intn(5)
	}
	if c.NVals > 7 {
		c.NVals = 7
	}
	switch r.Intn(7) {
	case 5: // two camps just below one half each and small validators that tip the balance (weighted medians, ties)
		if c.NVals < 3 {
			c.NVals = 3
		}
		a := int64(400 + r.Intn(100))
		c.Stakes = append(c.Stakes, a, a-int64(r.Intn(3)))
		for i := 2; i < c.NVals; i++ {
			c.Stakes = append(c.Stakes, int64(1+r.Intn(4)))
		}
	case 0: // equal
		p := int64(1 + r.Intn(100))
		for i := 0; i < c.NVals; i++ {
			c.Stakes = append(c.Stakes, p)
		}
	case 1: // one dominant
		for i := 0; i < c.NVals; i++ {
			c.Stakes = append(c.Stakes, int64(1+r.Intn(10)))
		}
		c.Stakes[r.Intn(c.NVals)] = int64(60 + r.Intn(200))
	case 2: // geometric
		p := int64(1 << uint(c.NVals))
		for i := 0; i < c.NVals; i++ {
			c.Stakes = append(c.Stakes, p)
			if p > 1 {
				p /= 2
			}
		}
	case 3: // tiny powers (threshold arithmetic edge)
		for i := 0; i < c.NVals; i++ {
			c.Stakes = append(c.Stakes, int64(1+r.Intn(3)))
		}
	case 4: // near-threshold: one validator with 33/34/65/66/67 % of 100
		tgt := pick(r, []int64{33, 34, 65, 66, 67})
		if c.NVals == 1 {
			c.Stakes = []int64{100}
		} else {
			rest := 100 - tgt
			c.Stakes = append(c.Stakes, tgt)
			for i := 1; i < c.NVals; i++ {
				s := rest / int64(c.NVals-1)
				if i == c.NVals-1 {
					s = rest - s*int64(c.NVals-2)
				}
				if s < 1 {
					s = 1
				}
				c.Stakes = append(c.Stakes, s)
			}
		}
	default:
		for i := 0; i < c.NVals; i++ {
			c.Stakes = append(c.Stakes, int64(1+r.Intn(1000)))
		}
	}
	if c.NVals >= 2 && r.Intn(16) == 0 {
		// a whale and a dust validator: the dust validator's normalised bridge power rounds to 0
		c.Stakes[0] = 5_000_000_000 + r.Int63n(1_000_000_000)
		c.Stakes[c.NVals-1] = 1
	}
	if r.Intn(10) == 0 {
		// a bond coin with 18 decimals: the same proportions with consensus powers around 2^48 and beyond
		// (1 coin = 10^12 power units at the default power reduction; Tendermint caps the total at 2^63/8 ~ 1.15e18)
		scale := pick(r, []int64{300_000_000_000, 10_000_000_000_000, 1_000_000_000_000_000})
		var sum int64
		for i := range c.Stakes {
			sum += c.Stakes[i]
		}
		for sum > 0 && scale > 1_000_000_000_000_000_000/sum {
			scale /= 10
		}
		for i := range c.Stakes {
			if c.Stakes[i] < 1_000_000 {
				c.Stakes[i] *= scale
			}
		}
	}
	c.EdgeKeys = r.Intn(6) == 0
	c.EdgeOper = r.Intn(6) == 0
	c.Keys = make([][]bool, c.NVals)
	for v := range c.Keys {
		c.Keys[v] = make([]bool, len(Chains))
		for ci := range Chains {
			c.Keys[v][ci] = r.Intn(10) != 0
		}
	}
	// make sure every chain has at least one keyed validator (the contract constructor needs power)
	for ci := range Chains {
		any := false
		for v := range c.Keys {
			any = any || c.Keys[v][ci]
		}
		if !any {
			c.Keys[0][ci] = true
		}
	}
	c.NUsers = 2 + r.Intn(4)
	// tokens: 1..3 denoms, each on 2..3 chains
	nd := 1 + r.Intn(3)
	id := uint64(1)
	minterIDs := []string{"1", "10", "19", "1902", "2012", "7"}
	r.Shuffle(len(minterIDs), func(i, j int) { minterIDs[i], minterIDs[j] = minterIDs[j], minterIDs[i] })
	for d := 0; d < nd; d++ {
		denom := []string{"usdt", "hubx", "weth"}[d]
		chains := append([]string(nil), Chains...)
		if r.Intn(3) == 0 {
			drop := r.Intn(3)
			chains = append(chains[:drop], chains[drop+1:]...)
		}
		for _, ch := range chains {
			t := TokenCfg{ID: id, Denom: denom, Chain: ch, Commission: pick(r, commChoices)}
			id++
			if ch == "minter" {
				t.ExtID = minterIDs[d]
				t.Decimals = 18
			} else {
				t.ExtID = ethTokenAddr(int(id))
				t.Decimals = pick(r, decChoices)
			}
			c.Tokens = append(c.Tokens, t)
		}
	}
	if r.Intn(5) == 0 {
		// the same contract address on Ethereum and on BSC (deterministic deployments give one address on every EVM
		// chain), possibly with other decimals and even for another denom: every lookup must stay within its chain
		var eth, bsc []int
		for i, t := range c.Tokens {
			switch t.Chain {
			case "ethereum":
				eth = append(eth, i)
			case "bsc":
				bsc = append(bsc, i)
			}
		}
		if len(eth) > 0 && len(bsc) > 0 {
			c.Tokens[bsc[r.Intn(len(bsc))]].ExtID = c.Tokens[eth[r.Intn(len(eth))]].ExtID
		}
	}
	gl := r.Intn(33)
	g := make([]byte, gl)
	for i := range g {
		g[i] = byte('a' + r.Intn(26))
	}
	c.GravityID = string(g)
	switch r.Intn(3) {
	case 0:
		c.ThresholdNum, c.ThresholdDen = 1, 2
	case 1:
		c.ThresholdNum, c.ThresholdDen = 66, 100
	default:
		c.ThresholdNum, c.ThresholdDen = 2, 3
	}
	c.AvgBlockMs = 5000
	c.AvgEthBlockMs = pick(r, []uint64{15000, 15000, 5000, 1000})
	c.AvgBscBlockMs = pick(r, []uint64{5000, 5000, 3000})
	c.TargetEthTxTimeoutMs = pick(r, []uint64{60000, 120000, 600000, 86400000})
	c.OutgoingTxTimeoutMs = pick(r, []uint64{60000, 300000, 3600000, 86400000 - 1, 60001, 299999})
	c.EthStartHeight = uint64(1000 + r.Intn(100000))
	c.Replicas = 1
	c.UnbondingSecs = pick(r, []int64{30, 120, 3600})
	// genesis must not hold more bonded validators than slots; 0..2 spare slots for validators created later
	c.MaxValidators = uint32(c.NVals + r.Intn(3))
	for u := 0; u < c.NUsers; u++ {
		if r.Intn(2) == 0 {
			c.HolderTier = append(c.HolderTier, -1)
		} else {
			c.HolderTier = append(c.HolderTier, r.Intn(12))
		}
	}
	c.WithPrices = r.Intn(5) != 0
	c.UserFunds = pick(r, []string{"1000000000000000000000", "1000000000000000000000000", "1000"})
	if r.Intn(8) == 0 {
		c.UserFunds = "1393796574908163946345982392040522594123776" // 2^140: fees and amounts beyond 2^128 become affordable
	}
	if r.Intn(2) == 0 {
		c.SignerSetWindow = pick(r, []uint64{1, 2, 5, 15})
	}
	if r.Intn(4) == 0 {
		c.BatchNonceStart = pick(r, []uint64{250, 253, 65530, 4294967290})
	}
	return c
}
