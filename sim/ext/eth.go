package ext

import (
	"crypto/ecdsa"
	"crypto/sha256"
	"encoding/hex"
	"fmt"
	"math/big"
	"sort"

	ethcrypto "github.com/ethereum/go-ethereum/crypto"
)

// Sig is a (v,r,s) triple as passed to the contract. V==0 means "no signature from this member".
type Sig struct {
	V uint8
	R [32]byte
	S [32]byte
}

// SigFromBytes converts 65-byte r|s|v (v in {0,1,27,28}) into contract form (27/28).
func SigFromBytes(b []byte) (Sig, bool) {
	var s Sig
	if len(b) != 65 {
		return s, false
	}
	copy(s.R[:], b[:32])
	copy(s.S[:], b[32:64])
	s.V = b[64]
	if s.V < 27 {
		s.V += 27
	}
	return s, true
}

// SignDigest signs keccak("\x19Ethereum Signed Message:\n32"||h) — what an orchestrator does — and
// returns the 65-byte r|s|v form with v in {27,28}. Only the curve primitive comes from go-ethereum.
func SignDigest(h [32]byte, key *ecdsa.PrivateKey) []byte {
	d := EthSignedDigest(h)
	sig, err := ethcrypto.Sign(d[:], key)
	if err != nil {
		panic(err)
	}
	sig[64] += 27
	return sig
}

// ecrecover mirrors the EVM precompile: zero address on any failure.
func ecrecover(digest [32]byte, s Sig) [20]byte {
	var zero [20]byte
	if s.V != 27 && s.V != 28 {
		return zero
	}
	raw := make([]byte, 65)
	copy(raw[:32], s.R[:])
	copy(raw[32:64], s.S[:])
	raw[64] = s.V - 27
	pub, err := ethcrypto.SigToPub(digest[:], raw)
	if err != nil {
		return zero
	}
	a := ethcrypto.PubkeyToAddress(*pub)
	var out [20]byte
	copy(out[:], a[:])
	return out
}

// VerifySig = Hub2.sol verifySig.
func VerifySig(signer [20]byte, theHash [32]byte, s Sig) bool {
	return signer == ecrecover(EthSignedDigest(theHash), s)
}

func KeyAddr(k *ecdsa.PrivateKey) [20]byte {
	a := ethcrypto.PubkeyToAddress(k.PublicKey)
	var out [20]byte
	copy(out[:], a[:])
	return out
}

func DetEthKey(label string) *ecdsa.PrivateKey {
	h := sha256.Sum256([]byte("mhubsim/eth/" + label))
	k, err := ethcrypto.ToECDSA(h[:])
	if err != nil {
		h = sha256.Sum256(h[:])
		k, err = ethcrypto.ToECDSA(h[:])
		if err != nil {
			panic(err)
		}
	}
	return k
}

// ---- events

type EthEventKind int

const (
	EvTransferToChain EthEventKind = iota + 1
	EvBatchExecuted
	EvValsetUpdated
	EvLogicCall
)

type EthEvent struct {
	Kind       EthEventKind
	EventNonce uint64
	Height     uint64
	TxHash     string
	// TransferToChain
	Token     [20]byte
	Sender    [20]byte
	DestChain string
	Dest      [32]byte // bytes32 _destination
	Amount    *big.Int
	Fee       *big.Int
	// BatchExecuted
	BatchNonce uint64
	FeePaid    *big.Int // gas cost reported by orchestrators (tx fee of the relayer)
	FeePayer   [20]byte
	// ValsetUpdated
	ValsetNonce uint64
	Members     []Member
	// LogicCall
	InvalidationID    [32]byte
	InvalidationNonce uint64
}

// Eth is the executable model of one Hub2 deployment plus the ERC-20 balances it touches.
type Eth struct {
	Chain          string
	GravityID      Word
	PowerThreshold *big.Int
	Checkpoint     [32]byte
	ValsetNonce    uint64
	Valset         []Member // members behind Checkpoint (what relayers learn from ValsetUpdatedEvent)
	LastBatchNonce map[[20]byte]uint64
	Invalidation   map[[32]byte]uint64
	EventNonce     uint64
	Height         uint64
	Events         []EthEvent

	// ERC-20 ledger: token -> holder -> balance. The contract's own address is ContractAddr.
	Bal          map[[20]byte]map[[20]byte]*big.Int
	ContractAddr [20]byte
	txCounter    uint64

	Stats struct {
		Deposits, BatchOK, BatchRejected, ValsetOK, ValsetRejected, LogicOK, LogicRejected int
	}
}

// NewEth = constructor.
func NewEth(chain string, gravityID []byte, threshold *big.Int, members []Member, startHeight uint64) (*Eth, error) {
	e := &Eth{Chain: chain, GravityID: B32Right(gravityID), PowerThreshold: new(big.Int).Set(threshold),
		LastBatchNonce: map[[20]byte]uint64{}, Invalidation: map[[32]byte]uint64{}, EventNonce: 1, Height: startHeight,
		Bal: map[[20]byte]map[[20]byte]*big.Int{}}
	e.ContractAddr = ParseAddr("0xc0c0c0c0c0c0c0c0c0c0c0c0c0c0c0c0c0c0c0c0")
	cum := new(big.Int)
	ok := false
	for _, m := range members {
		cum.Add(cum, new(big.Int).SetUint64(m.Power))
		if cum.Cmp(threshold) > 0 {
			ok = true
			break
		}
	}
	if !ok {
		return nil, fmt.Errorf("Submitted validator set signatures do not have enough power.")
	}
	e.Checkpoint = MakeCheckpoint(members, 0, e.GravityID)
	e.Valset = append([]Member(nil), members...)
	e.Events = append(e.Events, EthEvent{Kind: EvValsetUpdated, EventNonce: 1, Height: e.Height, TxHash: e.nextTxHash(), ValsetNonce: 0, Members: append([]Member(nil), members...)})
	return e, nil
}

func (e *Eth) nextTxHash() string {
	e.txCounter++
	h := sha256.Sum256([]byte(fmt.Sprintf("%s/tx/%d", e.Chain, e.txCounter)))
	return "0x" + hex.EncodeToString(h[:])
}

func (e *Eth) bal(token, holder [20]byte) *big.Int {
	m := e.Bal[token]
	if m == nil {
		m = map[[20]byte]*big.Int{}
		e.Bal[token] = m
	}
	b := m[holder]
	if b == nil {
		b = new(big.Int)
		m[holder] = b
	}
	return b
}

// Mint gives a user external tokens to deposit (test faucet; outside the bridge).
func (e *Eth) Mint(token, holder [20]byte, amt *big.Int) {
	e.bal(token, holder).Add(e.bal(token, holder), amt)
}

func (e *Eth) BalanceOf(token, holder [20]byte) *big.Int {
	return new(big.Int).Set(e.bal(token, holder))
}

// Custody is what the contract holds of a token.
func (e *Eth) Custody(token [20]byte) *big.Int { return e.BalanceOf(token, e.ContractAddr) }

func (e *Eth) transfer(token, from, to [20]byte, amt *big.Int) error {
	if amt.Sign() < 0 {
		return fmt.Errorf("negative amount")
	}
	fb := e.bal(token, from)
	if fb.Cmp(amt) < 0 {
		return fmt.Errorf("ERC20: transfer amount exceeds balance")
	}
	fb.Sub(fb, amt)
	tb := e.bal(token, to)
	tb.Add(tb, amt)
	return nil
}

var u256max = new(big.Int).Sub(new(big.Int).Lsh(big.NewInt(1), 256), big.NewInt(1))

// TransferToChain = Hub2.sol transferToChain: locks exactly _amount, emits (_amount, _fee).
func (e *Eth) TransferToChain(sender, token [20]byte, destChain string, dest [32]byte, amount, fee *big.Int) (*EthEvent, error) {
	if amount.Sign() < 0 || fee.Sign() < 0 || amount.Cmp(u256max) > 0 || fee.Cmp(u256max) > 0 {
		return nil, fmt.Errorf("not a uint256")
	}
	if len(destChain) > 32 {
		return nil, fmt.Errorf("destination chain does not fit bytes32")
	}
	if err := e.transfer(token, sender, e.ContractAddr, amount); err != nil {
		return nil, err
	}
	e.EventNonce++
	ev := EthEvent{Kind: EvTransferToChain, EventNonce: e.EventNonce, Height: e.Height, TxHash: e.nextTxHash(),
		Token: token, Sender: sender, DestChain: destChain, Dest: dest, Amount: new(big.Int).Set(amount), Fee: new(big.Int).Set(fee)}
	e.Events = append(e.Events, ev)
	e.Stats.Deposits++
	return &e.Events[len(e.Events)-1], nil
}

func (e *Eth) checkValidatorSignatures(cur []Member, sigs []Sig, theHash [32]byte) error {
	cum := new(big.Int)
	for i := range cur {
		if sigs[i].V != 0 {
			if !VerifySig(cur[i].Addr, theHash, sigs[i]) {
				return fmt.Errorf("Validator signature does not match.")
			}
			cum.Add(cum, new(big.Int).SetUint64(cur[i].Power))
			if cum.Cmp(e.PowerThreshold) > 0 {
				break
			}
		}
	}
	if cum.Cmp(e.PowerThreshold) <= 0 {
		return fmt.Errorf("Submitted validator set signatures do not have enough power.")
	}
	return nil
}

// UpdateValset = Hub2.sol updateValset.
func (e *Eth) UpdateValset(newMembers []Member, newNonce uint64, cur []Member, curNonce uint64, sigs []Sig) error {
	err := func() error {
		if !(newNonce > curNonce) {
			return fmt.Errorf("New valset nonce must be greater than the current nonce")
		}
		if len(cur) != len(sigs) {
			return fmt.Errorf("Malformed current validator set")
		}
		if MakeCheckpoint(cur, curNonce, e.GravityID) != e.Checkpoint {
			return fmt.Errorf("Supplied current validators and powers do not match checkpoint.")
		}
		newCp := MakeCheckpoint(newMembers, newNonce, e.GravityID)
		if err := e.checkValidatorSignatures(cur, sigs, newCp); err != nil {
			return err
		}
		e.Checkpoint = newCp
		e.ValsetNonce = newNonce
		e.Valset = append([]Member(nil), newMembers...)
		e.EventNonce++
		e.Events = append(e.Events, EthEvent{Kind: EvValsetUpdated, EventNonce: e.EventNonce, Height: e.Height, TxHash: e.nextTxHash(),
			ValsetNonce: newNonce, Members: append([]Member(nil), newMembers...)})
		return nil
	}()
	if err != nil {
		e.Stats.ValsetRejected++
	} else {
		e.Stats.ValsetOK++
	}
	return err
}

// SubmitBatch = Hub2.sol submitBatch. relayer pays gas (gasCost is what orchestrators later report as fee_paid).
func (e *Eth) SubmitBatch(cur []Member, curNonce uint64, sigs []Sig, b BatchCall, relayer [20]byte, gasCost *big.Int) error {
	err := func() error {
		if !(e.LastBatchNonce[b.Token] < b.Nonce) {
			return fmt.Errorf("New batch nonce must be greater than the current nonce")
		}
		if !(e.Height < b.Timeout) {
			return fmt.Errorf("Batch timeout must be greater than the current block height")
		}
		if len(cur) != len(sigs) {
			return fmt.Errorf("Malformed current validator set")
		}
		if MakeCheckpoint(cur, curNonce, e.GravityID) != e.Checkpoint {
			return fmt.Errorf("Supplied current validators and powers do not match checkpoint.")
		}
		if len(b.Amounts) != len(b.Destinations) || len(b.Amounts) != len(b.Fees) {
			return fmt.Errorf("Malformed batch of transactions")
		}
		for _, a := range b.Amounts {
			if a.Sign() < 0 || a.Cmp(u256max) > 0 {
				return fmt.Errorf("amount not a uint256")
			}
		}
		for _, a := range b.Fees {
			if a.Sign() < 0 || a.Cmp(u256max) > 0 {
				return fmt.Errorf("fee not a uint256")
			}
		}
		if err := e.checkValidatorSignatures(cur, sigs, BatchHash(b, e.GravityID)); err != nil {
			return err
		}
		// the transfers revert the whole call if the contract lacks funds: check first
		total := new(big.Int)
		for _, a := range b.Amounts {
			total.Add(total, a)
		}
		if e.Custody(b.Token).Cmp(total) < 0 {
			return fmt.Errorf("ERC20: transfer amount exceeds balance")
		}
		e.LastBatchNonce[b.Token] = b.Nonce
		for i := range b.Amounts {
			if err := e.transfer(b.Token, e.ContractAddr, b.Destinations[i], b.Amounts[i]); err != nil {
				panic("unreachable: checked above")
			}
		}
		e.EventNonce++
		e.Events = append(e.Events, EthEvent{Kind: EvBatchExecuted, EventNonce: e.EventNonce, Height: e.Height, TxHash: e.nextTxHash(),
			Token: b.Token, BatchNonce: b.Nonce, FeePaid: new(big.Int).Set(gasCost), FeePayer: relayer})
		return nil
	}()
	if err != nil {
		e.Stats.BatchRejected++
	} else {
		e.Stats.BatchOK++
	}
	return err
}

// SubmitLogicCall = Hub2.sol submitLogicCall (token movements only; the callee is a no-op).
func (e *Eth) SubmitLogicCall(cur []Member, curNonce uint64, sigs []Sig, c LogicCall, relayer [20]byte) error {
	err := func() error {
		if !(e.Height < c.Timeout) {
			return fmt.Errorf("Timed out")
		}
		if !(e.Invalidation[c.InvalidationID] < c.InvalidationNonce) {
			return fmt.Errorf("New invalidation nonce must be greater than the current nonce")
		}
		if len(cur) != len(sigs) {
			return fmt.Errorf("Malformed current validator set")
		}
		if MakeCheckpoint(cur, curNonce, e.GravityID) != e.Checkpoint {
			return fmt.Errorf("Supplied current validators and powers do not match checkpoint.")
		}
		if len(c.TransferAmounts) != len(c.TransferTokens) {
			return fmt.Errorf("Malformed list of token transfers")
		}
		if len(c.FeeAmounts) != len(c.FeeTokens) {
			return fmt.Errorf("Malformed list of fees")
		}
		if err := e.checkValidatorSignatures(cur, sigs, LogicCallHash(c, e.GravityID)); err != nil {
			return err
		}
		need := map[[20]byte]*big.Int{}
		for i, a := range c.TransferAmounts {
			if need[c.TransferTokens[i]] == nil {
				need[c.TransferTokens[i]] = new(big.Int)
			}
			need[c.TransferTokens[i]].Add(need[c.TransferTokens[i]], a)
		}
		for i, a := range c.FeeAmounts {
			if need[c.FeeTokens[i]] == nil {
				need[c.FeeTokens[i]] = new(big.Int)
			}
			need[c.FeeTokens[i]].Add(need[c.FeeTokens[i]], a)
		}
		for t, n := range need {
			if e.Custody(t).Cmp(n) < 0 {
				return fmt.Errorf("ERC20: transfer amount exceeds balance")
			}
		}
		e.Invalidation[c.InvalidationID] = c.InvalidationNonce
		for i, a := range c.TransferAmounts {
			_ = e.transfer(c.TransferTokens[i], e.ContractAddr, c.LogicContract, a)
		}
		for i, a := range c.FeeAmounts {
			_ = e.transfer(c.FeeTokens[i], e.ContractAddr, relayer, a)
		}
		e.EventNonce++
		e.Events = append(e.Events, EthEvent{Kind: EvLogicCall, EventNonce: e.EventNonce, Height: e.Height, TxHash: e.nextTxHash(),
			InvalidationID: c.InvalidationID, InvalidationNonce: c.InvalidationNonce})
		return nil
	}()
	if err != nil {
		e.Stats.LogicRejected++
	} else {
		e.Stats.LogicOK++
	}
	return err
}

// EventsAfter returns events with nonce > n, in order.
func (e *Eth) EventsAfter(n uint64) []EthEvent {
	i := sort.Search(len(e.Events), func(i int) bool { return e.Events[i].EventNonce > n })
	return e.Events[i:]
}

func (e *Eth) EventByNonce(n uint64) *EthEvent {
	i := sort.Search(len(e.Events), func(i int) bool { return e.Events[i].EventNonce >= n })
	if i < len(e.Events) && e.Events[i].EventNonce == n {
		return &e.Events[i]
	}
	return nil
}
