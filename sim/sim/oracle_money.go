package sim

import (
	"fmt"
	oracletypes "github.com/MinterTeam/mhub2/module/x/oracle/types"
	"math/big"
	"strconv"
	"strings"

	"mhubsim/ext"

	mhub2types "github.com/MinterTeam/mhub2/module/x/mhub2/types"
	sdk "github.com/cosmos/cosmos-sdk/types"
)

// ------------------------------------------------------------------------------------------------
// C01 — bridge solvency.
type C01 struct {
	BaseOracle
	L0       map[string]*big.Rat // per denom: custody − supply at the start (liquidity that is not backing vouchers)
	executed map[string]bool     // chain|token|nonce executed by the external model
	lastT    map[string]*big.Rat // ledger value T(d) = supply + full in-flight at the previous observation
}

func (*C01) Property() string { return "C01" }

func (w *World) custody(denom string) *big.Rat {
	sum := new(big.Rat)
	for _, t := range w.Cfg.Tokens {
		if t.Denom != denom {
			continue
		}
		cold := ext.ParseAddr(ColdStorage[t.Chain])
		if t.Chain == "minter" {
			if w.Minter != nil {
				sum.Add(sum, ToHubUnits(w.Minter.Custody(mustUint(t.ExtID)), t.Decimals))
				if r := w.Minter.Received["mx"+hexs(cold[:])]; r != nil && r[mustUint(t.ExtID)] != nil {
					sum.Add(sum, ToHubUnits(r[mustUint(t.ExtID)], t.Decimals))
				}
			}
		} else if e := w.Eth[t.Chain]; e != nil {
			sum.Add(sum, ToHubUnits(e.Custody(ext.ParseAddr(t.ExtID)), t.Decimals))
			sum.Add(sum, ToHubUnits(e.BalanceOf(ext.ParseAddr(t.ExtID), cold), t.Decimals))
		}
	}
	return sum
}

// ColdStorage: the governance cold-storage addresses of the deployment (custody, per the property statement).
var ColdStorage = map[string]string{"minter": "0x7072558b2b91e62dbed78e9a3453e5c9e01fec5e", "ethereum": "0x58BD8047F441B9D511aEE9c581aEb1caB4FE0b6d", "bsc": "0xbCc2Fa395c6198096855c932f4087cF1377d28EE"}

// toCold: a governance cold-storage transfer - created by the module itself (sender = the transit account) towards the
// chain's cold-storage address. An ordinary user's transfer to that address is an ordinary transfer.
func toCold(ch string, e *mhub2types.SendToExternal) bool {
	return e.Sender == TempAddr().String() && ext.ParseAddr(e.ExternalRecipient) == ext.ParseAddr(ColdStorage[ch])
}

func entryTotal(e *mhub2types.SendToExternal) *big.Int {
	s := new(big.Int).Add(e.Token.Amount.BigInt(), e.Fee.Amount.BigInt())
	return s.Add(s, e.ValCommission.Amount.BigInt())
}

// inflight sums pool and batch entries of a denom in hub units. With discountExecuted, a batch the external
// model has already executed counts only its fees and commissions (the amounts have left custody).
func (o *C01) inflight(w *World, s *Snap, denom string, discountExecuted bool) *big.Rat {
	sum := new(big.Rat)
	for _, ch := range Chains {
		for _, e := range s.Pool[ch] {
			if toCold(ch, e) {
				continue // custody-to-custody move decided by governance
			}
			if t := w.TokenOf(ch, e.Token.ExternalTokenId); t != nil && t.Denom == denom {
				sum.Add(sum, ToHubUnits(entryTotal(e), t.Decimals))
			}
		}
		for k, b := range s.Batches[ch] {
			done := discountExecuted && o.executed[ch+"|"+k]
			for _, e := range b.Transactions {
				if toCold(ch, e) {
					continue
				}
				if t := w.TokenOf(ch, e.Token.ExternalTokenId); t != nil && t.Denom == denom {
					v := entryTotal(e)
					if done {
						v = new(big.Int).Add(e.Fee.Amount.BigInt(), e.ValCommission.Amount.BigInt())
					}
					sum.Add(sum, ToHubUnits(v, t.Decimals))
				}
			}
		}
	}
	return sum
}

func (o *C01) Init(w *World) {
	o.L0 = map[string]*big.Rat{}
	o.executed = map[string]bool{}
	o.lastT = map[string]*big.Rat{}
	s := w.T().Cur
	for _, d := range w.Cfg.Denoms() {
		sup := new(big.Rat).SetInt(s.Supply[d].BigInt())
		o.L0[d] = new(big.Rat).Sub(w.custody(d), sup)
		o.lastT[d] = new(big.Rat).Add(sup, o.inflight(w, s, d, false))
	}
}

func (o *C01) solvent(w *World, where string) {
	if w.Tainted {
		return
	}
	s := w.T().Cur
	for _, d := range w.Cfg.Denoms() {
		w.St.Check("C01:solvency")
		lhs := new(big.Rat).SetInt(s.Supply[d].BigInt())
		lhs.Add(lhs, o.inflight(w, s, d, true))
		rhs := new(big.Rat).Sub(w.custody(d), o.L0[d])
		if lhs.Cmp(rhs) > 0 {
			diff := new(big.Rat).Sub(lhs, rhs)
			w.Fail("C01", "solvency", d+":"+where, fmt.Sprintf("%s: circulating supply + in-flight transfers exceed the collateral locked for them by %s hub units (supply %s, custody-backed %s)", d, diff.FloatString(0), s.Supply[d], rhs.FloatString(0)))
			return
		}
	}
}

func (o *C01) OnExtCall(w *World, c *ExtCall) {
	if c.Kind == "batch" && c.Err == nil {
		o.executed[c.Chain+"|"+bkey(c.Info["token"], mustUint(c.Info["nonce"]))] = true
	}
}

// lockedBy returns what the external chain really locked for event #nonce, in hub units of which denom.
func listedIn(infos []*mhub2types.TokenInfo, chain, denom string) bool {
	for _, ti := range infos {
		if ti.ChainId == chain && ti.Denom == denom {
			return true
		}
	}
	return false
}

func (w *World) lockedBy(chain string, nonce uint64) (string, *big.Rat) {
	if chain == "minter" {
		for _, ev := range w.MinterEvents() {
			if ev.EventNonce == nonce && ev.Kind == ext.MDeposit {
				if t := w.TokenOf("minter", strconv.FormatUint(ev.Tx.Coin, 10)); t != nil {
					return t.Denom, ToHubUnits(ev.Tx.Value, t.Decimals)
				}
			}
		}
		return "", nil
	}
	if e := w.Eth[chain]; e != nil {
		if ev := e.EventByNonce(nonce); ev != nil && ev.Kind == ext.EvTransferToChain {
			for _, t := range w.Cfg.Tokens {
				if t.Chain == chain && ext.ParseAddr(t.ExtID) == ev.Token {
					return t.Denom, ToHubUnits(ev.Amount, t.Decimals)
				}
			}
		}
	}
	return "", nil
}

func (o *C01) ledger(w *World, at string, allow map[string]*big.Rat) {
	if w.Tainted {
		return
	}
	s := w.T().Cur
	for _, d := range w.Cfg.Denoms() {
		w.St.Check("C01:ledger-delta")
		T := new(big.Rat).Add(new(big.Rat).SetInt(s.Supply[d].BigInt()), o.inflight(w, s, d, false))
		max := new(big.Rat).Set(o.lastT[d])
		if a := allow[d]; a != nil {
			max.Add(max, a)
		}
		if T.Cmp(max) > 0 {
			w.Fail("C01", "supply-delta", d+":"+at, fmt.Sprintf("%s: vouchers in circulation plus pending transfers grew by %s hub units more than the deposits observed in this step locked",
				d, new(big.Rat).Sub(T, max).FloatString(0)))
			return
		}
		o.lastT[d] = T
	}
}

func (o *C01) AfterBegin(w *World)           { o.ledger(w, "A", nil) }
func (o *C01) AfterTx(w *World, r *TxResult) { o.ledger(w, "B:"+r.Tx.Kind, nil) }
func (o *C01) AfterEnd(w *World) {
	t := w.T()
	allow := map[string]*big.Rat{}
	for _, a := range t.Applied {
		switch a.Event.(type) {
		case *mhub2types.SendToHubEvent, *mhub2types.TransferToChainEvent:
			if d, v := w.lockedBy(a.Chain, a.Nonce); v != nil {
				if allow[d] == nil {
					allow[d] = new(big.Rat)
				}
				allow[d].Add(allow[d], v)
				w.St.Probe("nontrivial")
				w.St.Probe("deposit-applied")
			}
		}
	}
	// ... and what an executed batch paid out on the external chain has left the system: of an executed batch only
	// fees and commissions (at most) may come back as vouchers, each in the denomination of the transfer that paid them
	for _, a := range t.Applied {
		e, ok := a.Event.(*mhub2types.BatchExecutedEvent)
		if !ok {
			continue
		}
		k := bkey(e.ExternalCoinId, e.BatchNonce)
		b := t.PreEnd.Batches[a.Chain][k]
		if b == nil || t.Cur.Batches[a.Chain][k] != nil {
			continue
		}
		for _, tx := range b.Transactions {
			if tx.Token.ExternalTokenId != b.ExternalTokenId {
				w.St.Probe("executed-batch-mixes-tokens")
			}
			if toCold(a.Chain, tx) {
				continue
			}
			if tk := w.TokenOf(a.Chain, tx.Token.ExternalTokenId); tk != nil {
				if allow[tk.Denom] == nil {
					allow[tk.Denom] = new(big.Rat)
				}
				allow[tk.Denom].Sub(allow[tk.Denom], ToHubUnits(tx.Token.Amount.BigInt(), tk.Decimals))
				w.St.Probe("execution-paid-out")
			}
		}
	}
	o.ledger(w, "C", allow)
	if w.Stopped() {
		return
	}
	// (the transit account's balance is part of the supply, so anything unbacked that piles up there is
	// caught by the two laws above; rounding dust of commission payouts is backed and allowed)
	o.solvent(w, "C")
}

// ------------------------------------------------------------------------------------------------
// C11 — amounts credited, debited and paid out are exact.
type C11 struct {
	BaseOracle
	tokenInfos []*mhub2types.TokenInfo
	preBal     map[string]sdk.Int
	preDigest  [2][32]byte
}

func (*C11) Property() string { return "C11" }

// Init: the rates in force at the start are the configured ones (the genesis file is the configuration).
func (o *C11) Init(w *World) {
	infos := w.ReadState().TokenInfos()
	for _, tk := range w.Cfg.Tokens {
		w.St.Check("C11:configured-rate")
		found := false
		for _, ti := range infos {
			if ti.ChainId == tk.Chain && ti.ExternalTokenId == tk.ExtID {
				found = true
				want, _ := sdk.NewDecFromStr(tk.Commission)
				if !ti.Commission.Equal(want) || ti.ExternalDecimals != tk.Decimals || ti.Denom != tk.Denom {
					w.Fail("C11", "commission", "configured", fmt.Sprintf("token %s on %s is configured with commission %s, %d decimals, denom %s; the hub starts with commission %s, %d decimals, denom %s", tk.ExtID, tk.Chain, tk.Commission, tk.Decimals, tk.Denom, ti.Commission, ti.ExternalDecimals, ti.Denom))
					return
				}
			}
		}
		if !found {
			w.Fail("C11", "commission", "configured", fmt.Sprintf("configured token %s on %s is missing from the hub's token list", tk.ExtID, tk.Chain))
			return
		}
	}
}

func (o *C11) BeforeTx(w *World, tx *PendingTx) {
	switch tx.Kind {
	case "user_send", "user_cancel", "req_batch":
		st := w.ReadState()
		o.tokenInfos = st.TokenInfos()
		o.preBal = st.AllBalances()
		o.preDigest = [2][32]byte{st.StoreDigest("bank"), st.StoreDigest("mhub2")}
	}
}

func ratFloor(r *big.Rat) *big.Int { return new(big.Int).Quo(r.Num(), r.Denom()) }

func (o *C11) AfterTx(w *World, r *TxResult) {
	switch r.Tx.Kind {
	case "user_send", "user_cancel", "req_batch":
	default:
		return
	}
	st := w.ReadState()
	if r.Code != 0 {
		w.St.Check("C11:atomic-fail")
		if st.StoreDigest("bank") != o.preDigest[0] || st.StoreDigest("mhub2") != o.preDigest[1] {
			w.Fail("C11", "atomic-fail", r.Tx.Kind, fmt.Sprintf("a failed %s (code %d: %s) changed balances or bridge state", r.Tx.Kind, r.Code, r.Log))
		}
		if r.Tx.Kind == "user_send" {
			w.St.Probe("failed-send")
		}
		return
	}
	if r.Tx.Kind != "user_send" {
		return
	}
	w.St.Probe("nontrivial")
	t := w.T()
	ch, denom := r.Tx.Meta["chain"], r.Tx.Meta["denom"]
	amt, fee := bigOf(r.Tx.Meta["amt"]), bigOf(r.Tx.Meta["fee"])
	total := new(big.Int).Add(amt, fee)
	nMsgs := int64(1)
	if n, err := strconv.ParseInt(r.Tx.Meta["n"], 10, 64); err == nil && n > 1 {
		nMsgs = n
	}
	debit := new(big.Int).Mul(total, big.NewInt(nMsgs))
	sender, _ := sdk.AccAddressFromBech32(r.Tx.Signer)
	post := st.AllBalances()
	// exactly the sender's balance of that denom changes, by −(amount+fee)
	w.St.Check("C11:debit")
	for _, k := range sortedKeys(post) {
		pre, ok := o.preBal[k]
		if !ok {
			pre = sdk.ZeroInt()
		}
		if !post[k].Equal(pre) {
			isSender := hasPrefix([]byte(k), senderBalKey(sender, denom)) && len(k) == len(senderBalKey(sender, denom))
			if !isSender {
				w.Fail("C11", "debit", "other-account", fmt.Sprintf("a withdrawal request by %s changed another balance (key %x: %s -> %s)", r.Tx.Signer, k, pre, post[k]))
				return
			}
		}
	}
	for _, k := range sortedKeys(o.preBal) {
		if _, ok := post[k]; !ok && !o.preBal[k].IsZero() {
			if !(hasPrefix([]byte(k), senderBalKey(sender, denom)) && len(k) == len(senderBalKey(sender, denom))) {
				w.Fail("C11", "debit", "other-account", fmt.Sprintf("a withdrawal request removed balance key %x", k))
				return
			}
		}
	}
	preS := o.preBal[string(senderBalKey(sender, denom))]
	if preS.IsNil() {
		preS = sdk.ZeroInt()
	}
	delta := preS.Sub(st.Balance(sender, denom))
	if delta.BigInt().Cmp(debit) != 0 {
		w.Fail("C11", "debit", "sender", fmt.Sprintf("%d withdrawal(s) of %s+%s%s debited %s", nMsgs, amt, fee, denom, delta))
		return
	}
	if nMsgs > 1 {
		return // the per-transfer postconditions below are stated for a single withdrawal
	}
	// the scheduled transfer
	var entry *mhub2types.SendToExternal
	for id, e := range t.Cur.Pool[ch] {
		if _, old := t.Prev.Pool[ch][id]; !old {
			if _, oldb := t.Prev.InBatch[ch][id]; !oldb {
				entry = e
			}
		}
	}
	tk := w.Cfg.Token(ch, denom)
	if entry == nil || tk == nil {
		w.Fail("C11", "scheduled", "missing", fmt.Sprintf("successful withdrawal request on %s left no new pool entry", ch))
		return
	}
	// the configured rate is whatever governance last set (read from the stored token list as of the tx)
	rateStr := tk.Commission
	for _, ti := range o.tokenInfos {
		if ti.ChainId == ch && ti.Denom == denom {
			rateStr = ti.Commission.String()
		}
	}
	rate, _ := new(big.Rat).SetString(rateStr)
	// commission bounds in hub units: c <= floor(rate*(A+F)); c >= floor(rate*0.4*(A+F)) - slack
	cMax := ratFloor(new(big.Rat).Mul(rate, new(big.Rat).SetInt(total)))
	slack := new(big.Int).Add(new(big.Int).Quo(total, pow10(18)), big.NewInt(2))
	cMin := new(big.Int).Sub(ratFloor(new(big.Rat).Mul(new(big.Rat).Mul(rate, big.NewRat(4, 10)), new(big.Rat).SetInt(total))), slack)
	// recover the commission interval from the recorded (converted) values
	k := int64(18) - int64(tk.Decimals)
	var cLo, cHi *big.Int
	if k <= 0 {
		m := pow10(uint64(-k))
		if new(big.Int).Mod(entry.ValCommission.Amount.BigInt(), m).Sign() != 0 {
			w.Fail("C11", "scheduled", "conversion", "recorded commission is not a whole number of hub units")
			return
		}
		cLo = new(big.Int).Quo(entry.ValCommission.Amount.BigInt(), m)
		cHi = cLo
		wantTok := new(big.Int).Mul(new(big.Int).Sub(amt, cLo), m)
		wantFee := new(big.Int).Mul(fee, m)
		w.St.Check("C11:scheduled")
		if entry.Token.Amount.BigInt().Cmp(wantTok) != 0 || entry.Fee.Amount.BigInt().Cmp(wantFee) != 0 {
			w.Fail("C11", "scheduled", "amount", fmt.Sprintf("withdrawal of %s (fee %s, commission %s) scheduled %s (fee %s) for the recipient; expected %s (fee %s)", amt, fee, cLo, entry.Token.Amount, entry.Fee.Amount, wantTok, wantFee))
			return
		}
	} else {
		m := pow10(uint64(k))
		cLo = new(big.Int).Mul(entry.ValCommission.Amount.BigInt(), m)
		cHi = new(big.Int).Add(cLo, new(big.Int).Sub(m, big.NewInt(1)))
		// token = floor((A-c)/m) for some c in [cLo,cHi]
		tHi := new(big.Int).Quo(new(big.Int).Sub(amt, cLo), m)
		tLo := new(big.Int).Quo(new(big.Int).Sub(amt, cHi), m)
		if new(big.Int).Sub(amt, cHi).Sign() < 0 {
			tLo = big.NewInt(0)
		}
		wantFee := new(big.Int).Quo(fee, m)
		w.St.Check("C11:scheduled")
		got := entry.Token.Amount.BigInt()
		if got.Cmp(tLo) < 0 || got.Cmp(tHi) > 0 || entry.Fee.Amount.BigInt().Cmp(wantFee) != 0 {
			w.Fail("C11", "scheduled", "amount", fmt.Sprintf("withdrawal of %s (fee %s) scheduled %s (fee %s, commission %s) external units; expected amount in [%s,%s], fee %s", amt, fee, got, entry.Fee.Amount, entry.ValCommission.Amount, tLo, tHi, wantFee))
			return
		}
	}
	w.St.Check("C11:commission")
	if cLo.Cmp(cMax) > 0 {
		w.Fail("C11", "commission", "above-rate", fmt.Sprintf("commission of at least %s charged on %s exceeds rate %s (max %s)", cLo, total, rateStr, cMax))
		return
	}
	if cHi.Cmp(cMin) < 0 {
		w.Fail("C11", "commission", "below-tiers", fmt.Sprintf("commission of at most %s charged on %s is below the largest holder discount (min %s)", cHi, total, cMin))
		return
	}
	// tier: the public DiscountForHolder answer of sender and recipient decides which discount applies
	disc := o.maxDiscount(w, r.Tx.Signer, entry.ExternalRecipient)
	if disc != nil {
		exp := new(big.Rat).Mul(new(big.Rat).Mul(rate, new(big.Rat).Sub(big.NewRat(1, 1), disc)), new(big.Rat).SetInt(total))
		expF := ratFloor(exp)
		lo := new(big.Int).Sub(expF, slack)
		hi := new(big.Int).Add(expF, slack)
		if cHi.Cmp(lo) < 0 || cLo.Cmp(hi) > 0 {
			w.Fail("C11", "commission", "tier", fmt.Sprintf("commission in [%s,%s] charged on %s; rate %s with holder discount %s implies %s", cLo, cHi, total, rateStr, disc.FloatString(2), expF))
			return
		}
		if disc.Sign() > 0 {
			w.St.Probe("holder-discount-applied")
		}
	}
	if r.Tx.Meta["amt"] == "1" || total.BitLen() > 100 {
		w.St.Probe("extreme-amount")
	}
}

func senderBalKey(addr sdk.AccAddress, denom string) []byte {
	// banktypes.CreateAccountBalancesPrefix(addr) + denom
	k := append([]byte{0x02, byte(len(addr))}, addr...)
	return append(k, []byte(denom)...)
}

// holderDiscountTiers: the bridge's published discount table (holding >= 2^k HUB lowers the commission by (k+1)*10 %).
var holderDiscountTiers = []struct {
	hub  int64
	disc *big.Rat
}{{32, big.NewRat(60, 100)}, {16, big.NewRat(50, 100)}, {8, big.NewRat(40, 100)}, {4, big.NewRat(30, 100)}, {2, big.NewRat(20, 100)}, {1, big.NewRat(10, 100)}}

func normHolderAddr(a string) string {
	a = strings.ToLower(a)
	if strings.HasPrefix(a, "0x") {
		a = a[2:]
	}
	return a
}

// maxDiscount computes, from the holder list the oracle module adopted and the published tiers, the discount
// owed when any of the parties is a holder; the hub's own DiscountForHolder query must agree with it.
func (o *C11) maxDiscount(w *World, addrs ...string) *big.Rat {
	return o.maxDiscountWith(w, w.ReadState().OracleHolders(), true, addrs...)
}

// isHexish: the text is an EVM-style address in some spelling (40 hex digits, optionally prefixed 0x / 0X).
func isHexish(a string) bool {
	b := strings.TrimPrefix(strings.TrimPrefix(a, "0x"), "0X")
	if len(b) != 40 {
		return false
	}
	for _, c := range b {
		if !(c >= '0' && c <= '9' || c >= 'a' && c <= 'f' || c >= 'A' && c <= 'F') {
			return false
		}
	}
	return true
}

func (o *C11) maxDiscountWith(w *World, holders *oracletypes.Holders, checkQuery bool, addrs ...string) *big.Rat {
	best := new(big.Rat)
	one := pow10(18)
	for _, a := range addrs {
		var held *big.Int
		if holders != nil {
			for _, h := range holders.List {
				if normHolderAddr(h.Address) == normHolderAddr(a) && !h.Value.IsNil() {
					held = h.Value.BigInt()
					break // the first entry of an address counts (lists carry an address once)
				}
			}
		}
		d := new(big.Rat)
		if held != nil {
			for _, t := range holderDiscountTiers {
				if held.Cmp(new(big.Int).Mul(big.NewInt(t.hub), one)) >= 0 {
					d = t.disc
					break
				}
			}
		}
		if d.Cmp(best) > 0 {
			best = d
		}
		if !checkQuery {
			continue
		}
		// the public query is the user-visible face of the same table
		var resp mhub2types.DiscountForHolderResponse
		if err := w.N().Query("/mhub2.v1.Query/DiscountForHolder", &mhub2types.DiscountForHolderRequest{Address: a}, &resp); err == nil {
			if q, ok := new(big.Rat).SetString(resp.Discount.String()); ok {
				w.St.Check("C11:discount-query")
				if q.Cmp(d) != 0 {
					w.Fail("C11", "commission", "discount-query", fmt.Sprintf("DiscountForHolder(%s) answers %s; the adopted holder list and the tiers give %s", a, q.FloatString(2), d.FloatString(2)))
					return nil
				}
			}
		}
	}
	return best
}

func (o *C11) AfterEnd(w *World) {
	if w.Tainted {
		return
	}
	t := w.T()
	st := w.ReadState()
	// the transit account only carries a chain-to-chain deposit or the refund of one for the duration of the step
	// that forwards it: whenever such a step fails, what it had put there is rolled back with it. (The payout of an
	// executed batch is the one step that leaves something behind on purpose: rounding dust of the commission split
	// and fee remainders it cannot refund.)
	executed := false
	for _, a := range t.Applied {
		if _, ok := a.Event.(*mhub2types.BatchExecutedEvent); ok {
			executed = true
		}
	}
	if !executed {
		w.St.Check("C11:transit-unchanged")
		for _, d := range w.Cfg.Denoms() {
			pre, ok := w.preEndBal[TempAddr().String()+"|"+d]
			if !ok {
				continue
			}
			if b := st.Balance(TempAddr(), d); b.GT(pre) {
				w.Fail("C11", "atomic-fail", "transit-account", fmt.Sprintf("EndBlock without a batch payout raised the bridge's transit account from %s to %s%s: a forwarding or refund step that failed kept the balance it had created", pre, b, d))
				return
			}
		}
	}
	// refunds in this EndBlock would blur attribution; C12 handles those accounts
	refundTo := map[string]bool{}
	for _, ch := range Chains {
		for id, e := range t.PreEnd.Pool[ch] {
			if _, still := t.Cur.Pool[ch][id]; !still && t.Cur.InBatch[ch][id] == nil {
				refundTo[e.Sender] = true
			}
		}
		for k, b := range t.PreEnd.Batches[ch] {
			if _, still := t.Cur.Batches[ch][k]; !still {
				for _, tx := range b.Transactions {
					refundTo[tx.Sender] = true
				}
			}
		}
	}
	want := map[string]*big.Int{}
	for _, a := range t.Applied {
		var rcv string
		switch e := a.Event.(type) {
		case *mhub2types.SendToHubEvent:
			rcv = e.CosmosReceiver
		case *mhub2types.TransferToChainEvent:
			if e.ReceiverChainId != "hub" {
				o.crossChainCommission(w, a.Chain, a.Nonce, e)
				if w.Stopped() {
					return
				}
				continue
			}
			rc, err := sdk.AccAddressFromHex(trim0x(e.ExternalReceiver))
			if err != nil {
				continue
			}
			rcv = rc.String()
		default:
			continue
		}
		d, locked := w.lockedBy(a.Chain, a.Nonce)
		if locked == nil {
			continue
		}
		if !listedIn(w.preEndTokens, a.Chain, d) || !listedIn(st.TokenInfos(), a.Chain, d) {
			w.St.Probe("deposit-of-delisted-token")
			continue // governance took the token off the list: the hub no longer knows what to credit
		}
		k := rcv + "|" + d
		if want[k] == nil {
			want[k] = new(big.Int)
		}
		want[k].Add(want[k], ratFloor(locked))
	}
	for _, k := range sortedKeys(want) {
		parts := splitN(k, '|', 2)
		if refundTo[parts[0]] {
			continue
		}
		acc, err := sdk.AccAddressFromBech32(parts[0])
		if err != nil {
			continue
		}
		if _, tracked := w.preEndBal[k]; !tracked {
			continue
		}
		w.St.Check("C11:credit")
		w.St.Probe("nontrivial")
		delta := st.Balance(acc, parts[1]).Sub(w.preEndBal[k])
		if delta.BigInt().Cmp(want[k]) != 0 {
			w.Fail("C11", "credit", "deposit", fmt.Sprintf("observed deposits locked %s%s (hub units, truncated) for %s but the account was credited %s", want[k], parts[1], parts[0], delta))
			return
		}
	}
}

// crossChainCommission: a deposit routed onward to another external chain is a withdrawal on that chain: it is
// charged at most the DESTINATION token's configured rate (less the holder discount) on the locked amount.
func (o *C11) crossChainCommission(w *World, srcChain string, nonce uint64, e *mhub2types.TransferToChainEvent) {
	t := w.T()
	dest := e.ReceiverChainId
	var entry *mhub2types.SendToExternal
	n := 0
	for id, x := range t.Cur.Pool[dest] {
		if _, old := t.PreEnd.Pool[dest][id]; old {
			continue
		}
		if _, oldb := t.PreEnd.InBatch[dest][id]; oldb {
			continue
		}
		if x.TxHash == e.TxHash && x.RefundChainId == srcChain {
			entry = x
			n++
		}
	}
	denom, locked := w.lockedBy(srcChain, nonce)
	if entry == nil || n != 1 || locked == nil {
		return // the onward transfer failed on its own, or is not attributable
	}
	var rate *big.Rat
	var dec uint64
	for _, ti := range w.ReadState().TokenInfos() {
		if ti.ChainId == dest && ti.Denom == denom {
			rate, _ = new(big.Rat).SetString(ti.Commission.String())
			dec = ti.ExternalDecimals
		}
	}
	if rate == nil {
		return
	}
	w.St.Check("C11:cross-chain-commission")
	w.St.Probe("cross-chain-transfer-charged")
	total := ratFloor(locked)
	disc := o.maxDiscountWith(w, w.preEndHolders, false, e.Sender, e.ExternalReceiver)
	if disc == nil {
		return
	}
	exp := ratFloor(new(big.Rat).Mul(new(big.Rat).Mul(rate, new(big.Rat).Sub(big.NewRat(1, 1), disc)), new(big.Rat).SetInt(total)))
	// recorded commission (destination external units) as an interval of hub units
	c := entry.ValCommission.Amount.BigInt()
	var cLo, cHi *big.Int
	if dec >= 18 {
		m := pow10(dec - 18)
		cLo = new(big.Int).Quo(c, m)
		cHi = new(big.Int).Quo(new(big.Int).Add(c, new(big.Int).Sub(m, big.NewInt(1))), m)
	} else {
		m := pow10(18 - dec)
		cLo = new(big.Int).Mul(c, m)
		cHi = new(big.Int).Add(cLo, new(big.Int).Sub(m, big.NewInt(1)))
	}
	slack := new(big.Int).Add(new(big.Int).Quo(total, pow10(18)), big.NewInt(2))
	// an address that is not spelled 0x + 40 digits (deposit commands admit "0X..." and bare digits) need not be
	// recognised as a holder: the statement bounds the commission by the configured rate from above and by the
	// entitled discount from below, it does not oblige the hub to find the holder behind every spelling
	canonical := func(a string) bool { return len(a) == 42 && strings.HasPrefix(a, "0x") || !isHexish(a) }
	if !canonical(e.Sender) || !canonical(e.ExternalReceiver) {
		w.St.Probe("holder-address-in-another-spelling")
		full := ratFloor(new(big.Rat).Mul(rate, new(big.Rat).SetInt(total)))
		if cLo.Cmp(new(big.Int).Add(full, slack)) > 0 || cHi.Cmp(new(big.Int).Sub(exp, slack)) < 0 {
			w.Fail("C11", "commission", "cross-chain", fmt.Sprintf("%s -> %s transfer of %s %s (hub units) was charged a commission in [%s,%s]; the destination token's rate %s allows at most %s, the holder discount %s at least %s", srcChain, dest, total, denom, cLo, cHi, rate.FloatString(6), full, disc.FloatString(2), exp))
		}
		return
	}
	if cLo.Cmp(new(big.Int).Add(exp, slack)) > 0 || cHi.Cmp(new(big.Int).Sub(exp, slack)) < 0 {
		w.Fail("C11", "commission", "cross-chain", fmt.Sprintf("%s -> %s transfer of %s %s (hub units) was charged a commission in [%s,%s]; the destination token's rate %s with holder discount %s implies %s", srcChain, dest, total, denom, cLo, cHi, rate.FloatString(6), disc.FloatString(2), exp))
	}
}
