package sim

import (
	"fmt"

	mhub2types "github.com/MinterTeam/mhub2/module/x/mhub2/types"
	sdk "github.com/cosmos/cosmos-sdk/types"
)

// sfield is one variable-length field of an event, seen as text (integers in decimal).
type sfield struct {
	name string
	get  func() string
	set  func(string) bool
}

func strField(name string, p *string) sfield {
	return sfield{name, func() string { return *p }, func(s string) bool { *p = s; return true }}
}

func intField(name string, p *sdk.Int) sfield {
	return sfield{name, func() string {
		if p.IsNil() {
			return ""
		}
		return p.String()
	}, func(s string) bool {
		if s == "" || (len(s) > 1 && s[0] == '0') {
			return false
		}
		v, ok := sdk.NewIntFromString(s)
		if !ok || v.BigInt().BitLen() > 255 {
			return false
		}
		*p = v
		return true
	}}
}

// textFields returns a deep-enough copy of the event together with accessors of its text-like fields.
func textFields(ev mhub2types.ExternalEvent) (mhub2types.ExternalEvent, []sfield) {
	switch e := ev.(type) {
	case *mhub2types.TransferToChainEvent:
		c := *e
		return &c, []sfield{strField("coin", &c.ExternalCoinId), intField("amount", &c.Amount), intField("fee", &c.Fee), strField("sender", &c.Sender),
			strField("dest_chain", &c.ReceiverChainId), strField("receiver", &c.ExternalReceiver), strField("tx_hash", &c.TxHash)}
	case *mhub2types.SendToHubEvent:
		c := *e
		return &c, []sfield{strField("coin", &c.ExternalCoinId), intField("amount", &c.Amount), strField("sender", &c.Sender), strField("receiver", &c.CosmosReceiver), strField("tx_hash", &c.TxHash)}
	case *mhub2types.BatchExecutedEvent:
		c := *e
		return &c, []sfield{strField("coin", &c.ExternalCoinId), strField("tx_hash", &c.TxHash), intField("fee_paid", &c.FeePaid), strField("fee_payer", &c.FeePayer)}
	}
	return nil, nil
}

type namedEvent struct {
	name string
	ev   mhub2types.ExternalEvent
}

// crossShifts builds every copy of the event in which one or two characters have moved across the boundary
// between two of its text-like fields (from the end of one to the front of the other, or the other way round),
// whatever order the identifier puts the fields in. Copies that do not pass stateless validation are dropped
// by the caller.
func crossShifts(ev mhub2types.ExternalEvent) []namedEvent {
	var out []namedEvent
	_, base := textFields(ev)
	for i := range base {
		for j := range base {
			if i == j {
				continue
			}
			for k := 1; k <= 2; k++ {
				for dir := 0; dir < 2; dir++ {
					c, fs := textFields(ev)
					a, b := fs[i].get(), fs[j].get()
					var na, nb string
					if dir == 0 { // tail of i -> head of j
						if len(a) < k {
							continue
						}
						na, nb = a[:len(a)-k], a[len(a)-k:]+b
					} else { // head of j -> tail of i
						if len(b) < k {
							continue
						}
						na, nb = a+b[:k], b[k:]
					}
					if !fs[i].set(na) || !fs[j].set(nb) {
						continue
					}
					out = append(out, namedEvent{fmt.Sprintf("xshift:%s>%s:%d:%d", fs[i].name, fs[j].name, k, dir), c})
				}
			}
		}
	}
	return out
}
