package hub

import (
	"crypto/sha256"
	"encoding/binary"
	"encoding/json"
	"fmt"
	"time"

	"github.com/MinterTeam/mhub2/module/app"
	mhub2types "github.com/MinterTeam/mhub2/module/x/mhub2/types"
	oracletypes "github.com/MinterTeam/mhub2/module/x/oracle/types"
	codectypes "github.com/cosmos/cosmos-sdk/codec/types"
	"github.com/cosmos/cosmos-sdk/crypto/keys/ed25519"
	"github.com/cosmos/cosmos-sdk/crypto/keys/secp256k1"
	sdk "github.com/cosmos/cosmos-sdk/types"
	authtypes "github.com/cosmos/cosmos-sdk/x/auth/types"
	banktypes "github.com/cosmos/cosmos-sdk/x/bank/types"
	govtypes "github.com/cosmos/cosmos-sdk/x/gov/types"
	minttypes "github.com/cosmos/cosmos-sdk/x/mint/types"
	slashingtypes "github.com/cosmos/cosmos-sdk/x/slashing/types"
	stakingtypes "github.com/cosmos/cosmos-sdk/x/staking/types"
)

const BondDenom = "stake"

// Account is a key pair controlled by the simulator.
type Account struct {
	Name string
	Priv *secp256k1.PrivKey
	Addr sdk.AccAddress
}

// DetKey derives a deterministic secp256k1 key from a label.
func DetKey(label string) *secp256k1.PrivKey {
	h := sha256.Sum256([]byte("mhubsim/" + label))
	for {
		// secp256k1.PrivKey accepts any 32 bytes in [1, N-1]; hash output is fine in practice
		if h != [32]byte{} {
			break
		}
		h = sha256.Sum256(h[:])
	}
	return &secp256k1.PrivKey{Key: h[:]}
}

func NewAccount(label string) *Account {
	p := DetKey(label)
	return &Account{Name: label, Priv: p, Addr: sdk.AccAddress(p.PubKey().Address())}
}

func (a *Account) ValAddr() sdk.ValAddress { return sdk.ValAddress(a.Addr) }

// ValSpec describes one genesis validator.
type ValSpec struct {
	Oper   *Account
	Cons   *ed25519.PrivKey
	Tokens sdk.Int // bonded tokens (power = tokens / 1e6)
	Bonded bool
}

func DetConsKey(label string) *ed25519.PrivKey {
	h := sha256.Sum256([]byte("mhubsim/cons/" + label))
	return ed25519.GenPrivKeyFromSecret(h[:])
}

// GenesisSpec is everything the simulator chooses about the chain's genesis.
type GenesisSpec struct {
	ChainID       string
	Time          time.Time
	Validators    []ValSpec
	Balances      map[string]sdk.Coins // bech32 -> coins (accounts are created for them)
	BalanceOrder  []string             // deterministic order of Balances keys
	Mhub2         *mhub2types.GenesisState
	Oracle        *oracletypes.GenesisState
	UnbondingTime time.Duration
	MaxValidators uint32
	// slashing
	SignedBlocksWindow int64
	MinSignedPerWindow sdk.Dec
	DowntimeJail       time.Duration
	// gov
	VotingPeriod time.Duration
}

// BuildGenesis renders the app state JSON.
func BuildGenesis(spec GenesisSpec) ([]byte, error) {
	Setup()
	enc := app.MakeEncodingConfig()
	cdc := enc.Marshaler
	gs := app.NewDefaultGenesisState()

	// ---- auth + bank
	var accounts []authtypes.GenesisAccount
	var balances []banktypes.Balance
	supply := sdk.NewCoins()
	seen := map[string]bool{}
	addAcc := func(addr sdk.AccAddress) {
		if seen[addr.String()] {
			return
		}
		seen[addr.String()] = true
		accounts = append(accounts, authtypes.NewBaseAccount(addr, nil, 0, 0))
	}
	for _, v := range spec.Validators {
		addAcc(v.Oper.Addr)
	}
	for _, k := range spec.BalanceOrder {
		addr, err := sdk.AccAddressFromBech32(k)
		if err != nil {
			return nil, err
		}
		addAcc(addr)
		c := spec.Balances[k]
		if !c.IsZero() {
			balances = append(balances, banktypes.Balance{Address: k, Coins: c})
			supply = supply.Add(c...)
		}
	}

	// ---- staking
	var vals []stakingtypes.Validator
	var dels []stakingtypes.Delegation
	bonded := sdk.ZeroInt()
	notBonded := sdk.ZeroInt()
	for _, v := range spec.Validators {
		pkAny, err := codectypes.NewAnyWithValue(v.Cons.PubKey())
		if err != nil {
			return nil, err
		}
		status := stakingtypes.Bonded
		if !v.Bonded {
			status = stakingtypes.Unbonded
		}
		vals = append(vals, stakingtypes.Validator{
			OperatorAddress:   v.Oper.ValAddr().String(),
			ConsensusPubkey:   pkAny,
			Status:            status,
			Tokens:            v.Tokens,
			DelegatorShares:   v.Tokens.ToDec(),
			Description:       stakingtypes.Description{Moniker: v.Oper.Name},
			UnbondingTime:     time.Unix(0, 0).UTC(),
			Commission:        stakingtypes.NewCommission(sdk.ZeroDec(), sdk.ZeroDec(), sdk.ZeroDec()),
			MinSelfDelegation: sdk.OneInt(),
		})
		dels = append(dels, stakingtypes.NewDelegation(v.Oper.Addr, v.Oper.ValAddr(), v.Tokens.ToDec()))
		if v.Bonded {
			bonded = bonded.Add(v.Tokens)
		} else {
			notBonded = notBonded.Add(v.Tokens)
		}
	}
	sp := stakingtypes.DefaultParams()
	sp.BondDenom = BondDenom
	if spec.UnbondingTime > 0 {
		sp.UnbondingTime = spec.UnbondingTime
	}
	if spec.MaxValidators > 0 {
		sp.MaxValidators = spec.MaxValidators
	}
	sg := stakingtypes.NewGenesisState(sp, vals, dels)
	gs[stakingtypes.ModuleName] = cdc.MustMarshalJSON(sg)
	if bonded.IsPositive() {
		c := sdk.NewCoins(sdk.NewCoin(BondDenom, bonded))
		balances = append(balances, banktypes.Balance{Address: authtypes.NewModuleAddress(stakingtypes.BondedPoolName).String(), Coins: c})
		supply = supply.Add(c...)
	}
	if notBonded.IsPositive() {
		c := sdk.NewCoins(sdk.NewCoin(BondDenom, notBonded))
		balances = append(balances, banktypes.Balance{Address: authtypes.NewModuleAddress(stakingtypes.NotBondedPoolName).String(), Coins: c})
		supply = supply.Add(c...)
	}

	ag := authtypes.NewGenesisState(authtypes.DefaultParams(), accounts)
	gs[authtypes.ModuleName] = cdc.MustMarshalJSON(ag)
	bg := banktypes.NewGenesisState(banktypes.DefaultGenesisState().Params, balances, supply, []banktypes.Metadata{})
	gs[banktypes.ModuleName] = cdc.MustMarshalJSON(bg)

	// ---- mint: no inflation, so that supply changes only through the bridge
	mg := minttypes.DefaultGenesisState()
	mg.Minter.Inflation = sdk.ZeroDec()
	mg.Minter.AnnualProvisions = sdk.ZeroDec()
	mg.Params.MintDenom = BondDenom
	mg.Params.InflationMax = sdk.ZeroDec()
	mg.Params.InflationMin = sdk.ZeroDec()
	mg.Params.InflationRateChange = sdk.ZeroDec()
	gs[minttypes.ModuleName] = cdc.MustMarshalJSON(mg)

	// ---- slashing
	slg := slashingtypes.DefaultGenesisState()
	if spec.SignedBlocksWindow > 0 {
		slg.Params.SignedBlocksWindow = spec.SignedBlocksWindow
		slg.Params.MinSignedPerWindow = spec.MinSignedPerWindow
		slg.Params.DowntimeJailDuration = spec.DowntimeJail
	}
	for _, v := range spec.Validators {
		ca := sdk.ConsAddress(v.Cons.PubKey().Address())
		slg.SigningInfos = append(slg.SigningInfos, slashingtypes.SigningInfo{Address: ca.String(),
			ValidatorSigningInfo: slashingtypes.NewValidatorSigningInfo(ca, 0, 0, time.Unix(0, 0).UTC(), false, 0)})
	}
	gs[slashingtypes.ModuleName] = cdc.MustMarshalJSON(slg)

	// ---- gov
	gg := govtypes.DefaultGenesisState()
	gg.DepositParams.MinDeposit = sdk.NewCoins(sdk.NewInt64Coin(BondDenom, 1))
	if spec.VotingPeriod > 0 {
		gg.VotingParams.VotingPeriod = spec.VotingPeriod
	}
	gs[govtypes.ModuleName] = cdc.MustMarshalJSON(gg)

	// ---- mhub2 / oracle
	if spec.Mhub2 != nil {
		gs[mhub2types.ModuleName] = cdc.MustMarshalJSON(spec.Mhub2)
	}
	if spec.Oracle != nil {
		gs[oracletypes.ModuleName] = cdc.MustMarshalJSON(spec.Oracle)
	}
	out, err := json.Marshal(gs)
	if err != nil {
		return nil, fmt.Errorf("marshal genesis: %w", err)
	}
	return out, nil
}

func u64(v uint64) []byte { b := make([]byte, 8); binary.BigEndian.PutUint64(b, v); return b }
