package sim

import (
	"bytes"
	"encoding/hex"
	"fmt"
	"strconv"
	"strings"

	mhub2types "github.com/MinterTeam/mhub2/module/x/mhub2/types"
	sdk "github.com/cosmos/cosmos-sdk/types"
	stakingtypes "github.com/cosmos/cosmos-sdk/x/staking/types"
)

// valOfSigner: the harness-side registry of who may speak for which validator on a chain.
func (w *World) valOfSigner(chain, signer string) (sdk.ValAddress, bool) {
	if v, ok := w.keyModelOf(chain).orchVal[signer]; ok {
		if va, err := sdk.ValAddressFromBech32(v); err == nil {
			return va, true
		}
	}
	ci := w.Cfg.ChainIdx(chain)
	for _, v := range w.Vals {
		if v.Oper.Addr.String() == signer {
			return v.Oper.ValAddr(), true
		}
		if ci >= 0 && (w.Cfg.Keys[v.Idx][ci] || w.KeysSet[fmt.Sprintf("%d/%s", v.Idx, chain)]) && v.Orch[chain].Addr.String() == signer {
			return v.Oper.ValAddr(), true
		}
	}
	for _, l := range []string{"newval0", "newval1"} {
		if w.Extra[l].Addr.String() == signer {
			return w.Extra[l].ValAddr(), true
		}
	}
	return nil, false
}

func parseNonces(s string) []uint64 {
	var out []uint64
	for _, p := range strings.Split(s, ",") {
		if p == "" {
			continue
		}
		n, err := strconv.ParseUint(p, 10, 64)
		if err == nil {
			out = append(out, n)
		}
	}
	return out
}

func isClaimTx(tx *PendingTx) bool { return tx.Kind == "claim" || tx.Kind == "adv_claim" }

// ------------------------------------------------------------------------------------------------
// C03 — external events are applied exactly once, in nonce order.
type C03 struct {
	BaseOracle
	acceptedAt map[string]string // chain/nonce -> record key
	lastClaim  map[string]uint64 // chain/val -> last accepted claim nonce
}

func (*C03) Property() string { return "C03" }
func (o *C03) Init(w *World) {
	o.acceptedAt = map[string]string{}
	o.lastClaim = map[string]uint64{}
}

func (o *C03) AfterTx(w *World, r *TxResult) {
	if !isClaimTx(r.Tx) || r.Code != 0 {
		return
	}
	chain := r.Tx.Meta["chain"]
	val, ok := w.valOfSigner(chain, r.Tx.Signer)
	if !ok {
		return // C02 judges votes from accounts that speak for nobody
	}
	k := chain + "/" + val.String()
	for _, n := range parseNonces(r.Tx.Meta["nonces"]) {
		w.St.Check("C03:validator-contiguity")
		if last, seen := o.lastClaim[k]; seen && n != last+1 {
			w.Fail("C03", "validator-contiguity", "claim", fmt.Sprintf("validator %s claimed nonce %d on %s after nonce %d and the claim was accepted", val, n, chain, last))
			return
		}
		o.lastClaim[k] = n
	}
}

func (o *C03) AfterEnd(w *World) {
	t := w.T()
	for _, ch := range Chains {
		prev, cur := t.PreEnd.LastObs[ch], t.Cur.LastObs[ch]
		w.St.Check("C03:nonce-order")
		if cur < prev {
			w.Fail("C03", "nonce-order", "counter", fmt.Sprintf("%s last observed nonce went back %d -> %d", ch, prev, cur))
			return
		}
		// records accepted in this block must be exactly prev+1..cur, one each
		var got []uint64
		for _, a := range t.Applied {
			if a.Chain == ch {
				got = append(got, a.Nonce)
				key := hex.EncodeToString(a.Rec.Key)
				id := ch + "/" + strconv.FormatUint(a.Nonce, 10)
				if old, ok := o.acceptedAt[id]; ok && old != key {
					w.Fail("C03", "one-accepted", "record", fmt.Sprintf("%s nonce %d: a second, different claim was accepted", ch, a.Nonce))
					return
				} else if ok {
					w.Fail("C03", "one-accepted", "record", fmt.Sprintf("%s nonce %d accepted again", ch, a.Nonce))
					return
				}
				o.acceptedAt[id] = key
			}
		}
		want := cur - prev
		if uint64(len(got)) != want {
			w.Fail("C03", "nonce-order", "applied-count", fmt.Sprintf("%s: last observed nonce moved %d -> %d but %d records were accepted %v", ch, prev, cur, len(got), got))
			return
		}
		for i, n := range got {
			if n != prev+1+uint64(i) {
				w.Fail("C03", "nonce-order", "gap", fmt.Sprintf("%s: accepted nonces %v are not %d..%d", ch, got, prev+1, cur))
				return
			}
		}
		if want > 0 {
			w.St.Probe("nontrivial")
			if want > 1 {
				w.St.Probe("several-events-applied-in-one-block")
			}
		}
		// at most one accepted record per nonce in the store, none beyond the counter
		seen := map[uint64]int{}
		byNonce := map[uint64]int{}
		for _, r := range t.Cur.Votes[ch] {
			byNonce[r.Nonce]++
			if r.Rec.Accepted {
				seen[r.Nonce]++
				if r.Nonce > cur {
					w.Fail("C03", "nonce-order", "ahead", fmt.Sprintf("%s: record at nonce %d accepted while last observed is %d", ch, r.Nonce, cur))
					return
				}
			}
		}
		for n, c := range seen {
			if c > 1 {
				w.Fail("C03", "one-accepted", "store", fmt.Sprintf("%s: %d accepted records at nonce %d", ch, c, n))
				return
			}
		}
		for _, c := range byNonce {
			if c > 1 {
				w.St.Probe("conflicting-claims-at-one-nonce")
			}
		}
		// the observation events emitted in EndBlock are the public face of the same fact
		var evN []uint64
		for _, e := range w.BlockEvents {
			if e.Type != mhub2types.EventTypeObservation {
				continue
			}
			var id string
			var nn uint64
			for _, a := range e.Attributes {
				switch string(a.Key) {
				case mhub2types.AttributeKeyEthereumEventVoteRecordID:
					id = string(a.Value)
				case mhub2types.AttributeKeyNonce:
					nn, _ = strconv.ParseUint(string(a.Value), 10, 64)
				}
			}
			p := append([]byte{mhub2types.ExternalEventVoteRecordKey}, []byte(ch)...)
			if bytes.HasPrefix([]byte(id), p) {
				evN = append(evN, nn)
			}
		}
		if uint64(len(evN)) != want {
			w.Fail("C03", "effects-once", "observation-events", fmt.Sprintf("%s: %d events applied but %d observation events emitted %v", ch, want, len(evN), evN))
			return
		}
	}
}

// ------------------------------------------------------------------------------------------------
// C02 — attestation quorum: >= 66 % of bonded power, distinct validators, legitimate voters.
type C02 struct {
	BaseOracle
	cast map[string]bool   // chain/nonce/val -> a claim tx by that validator (or its orchestrator) succeeded
	said map[string]string // chain/nonce/val -> the event that validator reported, field by field
}

// eventText: every field of a reported event (member order of signer sets is not a field).
func eventText(ev mhub2types.ExternalEvent) string {
	if ev == nil {
		return "<undecodable>"
	}
	return fmt.Sprintf("%T %s", ev, canonEvent(ev).String())
}

func (*C02) Property() string { return "C02" }
func (o *C02) Init(w *World)  { o.cast = map[string]bool{}; o.said = map[string]string{} }

func (o *C02) BeforeTx(w *World, tx *PendingTx) {
	if !isClaimTx(tx) {
		return
	}
	// remember whether the validator this signer speaks for is bonded right now (live block state)
	chain := tx.Meta["chain"]
	tx.Meta["_bonded"] = "0"
	if val, ok := w.valOfSigner(chain, tx.Signer); ok {
		if v := w.ReadState().Validator(val); v != nil && v.Status == stakingtypes.Bonded {
			tx.Meta["_bonded"] = "1"
		}
		tx.Meta["_val"] = val.String()
	}
}

func (o *C02) AfterTx(w *World, r *TxResult) {
	if !isClaimTx(r.Tx) || r.Code != 0 {
		return
	}
	chain := r.Tx.Meta["chain"]
	w.St.Check("C02:vote-origin")
	val, ok := r.Tx.Meta["_val"]
	if !ok {
		w.Fail("C02", "vote-origin", "foreign-signer", fmt.Sprintf("a claim signed by %s, which is neither a validator nor a registered orchestrator on %s, was accepted", r.Tx.Signer, chain))
		return
	}
	if r.Tx.Meta["_bonded"] != "1" {
		w.Fail("C02", "vote-origin", "unbonded-voter", fmt.Sprintf("a claim for validator %s, which is not bonded, was accepted on %s", val, chain))
		return
	}
	for _, n := range parseNonces(r.Tx.Meta["nonces"]) {
		o.cast[fmt.Sprintf("%s/%d/%s", chain, n, val)] = true
	}
	for _, m := range r.Tx.Msgs {
		if sm, ok := m.(*mhub2types.MsgSubmitExternalEvent); ok {
			if ev := DecodeEvent(sm.Event); ev != nil {
				o.said[fmt.Sprintf("%s/%d/%s", sm.ChainId, ev.GetEventNonce(), val)] = eventText(ev)
			}
		}
	}
}

func (o *C02) AfterEnd(w *World) {
	t := w.T()
	st := w.ReadState()
	total := st.LastTotalPower()
	for _, a := range t.Applied {
		w.St.Check("C02:quorum")
		w.St.Probe("nontrivial")
		distinct := map[string]bool{}
		sum := sdk.ZeroInt()
		for _, vs := range a.Rec.Rec.Votes {
			if distinct[vs] {
				w.Fail("C02", "quorum", "duplicate-voter", fmt.Sprintf("%s nonce %d: validator %s appears twice among the voters of the applied record", a.Chain, a.Nonce, vs))
				return
			}
			distinct[vs] = true
			if !o.cast[fmt.Sprintf("%s/%d/%s", a.Chain, a.Nonce, vs)] {
				w.Fail("C02", "vote-origin", "unattributed-vote", fmt.Sprintf("%s nonce %d: vote of %s was counted but no claim by that validator or its orchestrator was accepted", a.Chain, a.Nonce, vs))
				return
			}
			va, err := sdk.ValAddressFromBech32(vs)
			if err != nil {
				continue
			}
			if v := st.Validator(va); v != nil && v.Status == stakingtypes.Bonded {
				sum = sum.Add(sdk.NewInt(st.LastValidatorPower(va)))
			}
		}
		// ... each of them for THAT event: the power of the voters whose own report equals the applied event in every field
		w.St.Check("C02:same-event")
		applied := eventText(a.Event)
		same := sdk.ZeroInt()
		differing := ""
		for _, vs := range a.Rec.Rec.Votes {
			va, err := sdk.ValAddressFromBech32(vs)
			if err != nil {
				continue
			}
			rep, ok := o.said[fmt.Sprintf("%s/%d/%s", a.Chain, a.Nonce, vs)]
			if !ok {
				continue
			}
			if rep != applied {
				differing = vs + " reported " + rep
				continue
			}
			if v := st.Validator(va); v != nil && v.Status == stakingtypes.Bonded {
				same = same.Add(sdk.NewInt(st.LastValidatorPower(va)))
			}
		}
		if same.MulRaw(100).LT(total.MulRaw(66)) && !sum.MulRaw(100).LT(total.MulRaw(66)) {
			w.Fail("C02", "quorum", "same-event", fmt.Sprintf("%s nonce %d applied %s; the voters who reported exactly that event hold %s of %s bonded power, the rest of the %s counted voted for something else (%s)", a.Chain, a.Nonce, applied, same, total, sum, differing))
			return
		}
		// exact integers: 100 * sum >= 66 * total
		if sum.MulRaw(100).LT(total.MulRaw(66)) {
			w.Fail("C02", "quorum", "below-66pct", fmt.Sprintf("%s nonce %d applied with voters holding %s of %s bonded power (%d voters)", a.Chain, a.Nonce, sum, total, len(distinct)))
			return
		}
		if sum.MulRaw(100).LT(total.MulRaw(70)) {
			w.St.Probe("quorum-within-4pct-of-threshold")
		}
	}
	// no effect without a record
	for _, ch := range Chains {
		if t.Cur.LastObs[ch] != t.PreEnd.LastObs[ch] {
			found := false
			for _, a := range t.Applied {
				if a.Chain == ch {
					found = true
				}
			}
			w.St.Check("C02:no-effect-without-record")
			if !found {
				w.Fail("C02", "no-effect-without-record", "counter", fmt.Sprintf("%s: last observed nonce changed without an accepted vote record", ch))
				return
			}
		}
	}
}
