package sim

import (
	"crypto/sha256"
	"encoding/hex"
	"encoding/json"
	"fmt"
	"math/rand"
	"os"
	"sort"
	"strings"
	"time"

	"mhubsim/hub"
)

// RunResult is what one execution produced.
type RunResult struct {
	Property string       `json:"property"`
	Seed     int64        `json:"seed"`
	Cfg      Config       `json:"config"`
	Intents  []Intent     `json:"intents"`
	Viol     *Violation   `json:"violation,omitempty"`
	Viols    []*Violation `json:"violations,omitempty"`
	CrashStr string       `json:"crash,omitempty"`
	Crash    *hub.Crash   `json:"-"`
	Stats    *Stats       `json:"stats"`
	Shape    string       `json:"shape"`
	NonTriv  bool         `json:"nontrivial"`
	Log      []string     `json:"-"`
	Blocks   int64        `json:"blocks"`
	Trail    []string     `json:"-"`
}

// SplitMix64: VERIF_SEED -> per-run seeds.
func SplitMix64(x *uint64) uint64 {
	*x += 0x9E3779B97F4A7C15
	z := *x
	z = (z ^ (z >> 30)) * 0xBF58476D1CE4E5B9
	z = (z ^ (z >> 27)) * 0x94D049BB133111EB
	return z ^ (z >> 31)
}

// ProfileFor picks the workload profile of a run of a property.
func ProfileFor(prop string, r *rand.Rand) string {
	switch prop {
	case "C05":
		return []string{"C05", "C05adv", "C05adv", "C05size"}[r.Intn(4)]
	}
	return prop
}

func stepsFor(tier string, r *rand.Rand) int {
	if tier == "thorough" {
		return 60 + r.Intn(200)
	}
	return 25 + r.Intn(50)
}

// finalize turns a crash into a C05 violation, computes shape etc.
func finalize(prop string, w *World, res *RunResult) {
	res.Stats = w.St
	res.Blocks = w.St.Blocks
	res.Log = w.Log
	res.Trail = w.Trail
	if w.Crash != nil {
		res.Crash = w.Crash
		res.CrashStr = w.Crash.Error()
		inBridge := false
		for _, f := range w.Crash.Frames {
			if strings.Contains(f, "module/x/mhub2") || strings.Contains(f, "module/x/oracle") {
				inBridge = true
			}
		}
		if prop == "C05" && inBridge && (w.Crash.Call == "BeginBlock" || w.Crash.Call == "EndBlock") && w.Crash.Kind != "dead" {
			site := w.Crash.Kind + ":" + strings.Join(firstN(w.Crash.Frames, 3), "<")
			if w.Viol == nil {
				w.Viol = &Violation{Property: "C05", Oracle: w.Crash.Kind, Site: site, Message: w.Crash.Error(), Height: w.N().Header.Height, IntentIx: w.CurIntent}
			}
		}
	}
	if w.Viol != nil && w.Viol.Property == prop {
		res.Viol = w.Viol
		res.Viols = append(res.Viols, w.Viol)
	}
	for _, n := range w.Notes {
		if n.Property == prop {
			res.Viols = append(res.Viols, n)
			if res.Viol == nil {
				res.Viol = n
			}
		}
	}
	res.Shape = shapeOf(w, res.Intents)
	res.NonTriv = w.St.Probes["nontrivial"] > 0
}

func firstN(s []string, n int) []string {
	if len(s) > n {
		return s[:n]
	}
	return s
}

func shapeOf(w *World, ins []Intent) string {
	tri := map[string]bool{}
	for i := 0; i+2 < len(ins); i++ {
		tri[ins[i].T+">"+ins[i+1].T+">"+ins[i+2].T] = true
	}
	ks := make([]string, 0, len(tri))
	for k := range tri {
		ks = append(ks, k)
	}
	sort.Strings(ks)
	h := sha256.New()
	for _, k := range ks {
		h.Write([]byte(k))
	}
	for _, k := range sortedI64Keys(w.St.Counters) {
		// bucketed counters: 0,1,2-3,4-7,...
		v := w.St.Counters[k]
		b := 0
		for v > 0 {
			b++
			v >>= 1
		}
		h.Write([]byte(fmt.Sprintf("%s=%d;", k, b)))
	}
	return hex.EncodeToString(h.Sum(nil)[:8])
}

// RunSeed generates and executes one run.
func RunSeed(prop string, seed int64, tier string, logOn bool) *RunResult {
	r := rand.New(rand.NewSource(seed))
	profile := ProfileFor(prop, r)
	cfg := GenConfig(r, profile)
	tuneConfig(&cfg, prop, r)
	res := &RunResult{Property: prop, Seed: seed, Cfg: cfg}
	w, err := NewWorld(cfg, OraclesFor(prop), logOn)
	if err != nil {
		res.CrashStr = "setup: " + err.Error()
		res.Stats = NewStats()
		return res
	}
	g := NewGen(r, w, profile)
	steps := stepsFor(tier, r)
	for i := 0; i < steps && !w.Stopped(); i++ {
		g.Step()
	}
	// drain: let the honest machinery finish what is in flight (also the liveness window)
	if !w.Stopped() {
		g.Drain()
	}
	res.Intents = g.Out
	if !w.Stopped() {
		for _, o := range w.Oracles {
			o.Finish(w)
			if w.Stopped() {
				break
			}
		}
	}
	finalize(prop, w, res)
	return res
}

// Replay executes a recorded trace.
func Replay(prop string, cfg Config, intents []Intent, logOn bool) *RunResult {
	res := &RunResult{Property: prop, Cfg: cfg, Intents: intents}
	w, err := NewWorld(cfg, OraclesFor(prop), logOn)
	if err != nil {
		res.CrashStr = "setup: " + err.Error()
		res.Stats = NewStats()
		return res
	}
	w.RunIntents(intents)
	finalize(prop, w, res)
	return res
}

// MinimiseDeadline (set by a check worker) ends all shrinking in this process, so that a worker that meets many
// distinct failures still reports them inside the check's wall-clock bound.
var MinimiseDeadline time.Time

// Minimise is delta debugging over the intent list: a candidate is kept only if it still yields a
// violation with the same signature.
func Minimise(prop string, cfg Config, intents []Intent, sig string, budget int) []Intent {
	cur := append([]Intent(nil), intents...)
	tries := 0
	// the wall clock only bounds the EFFORT spent on shrinking (every kept candidate was re-executed and failed the
	// same way); it takes no part in any simulated decision
	start := time.Now()
	same := func(c []Intent) bool {
		if time.Since(start) > 100*time.Second || (!MinimiseDeadline.IsZero() && time.Now().After(MinimiseDeadline)) {
			tries = budget
			return false
		}
		tries++
		r := Replay(prop, cfg, c, false)
		for _, v := range r.Viols {
			if v.Signature() == sig {
				return true
			}
		}
		return false
	}
	// cut the tail after the failing intent first
	n := 2
	for len(cur) >= 2 && tries < budget {
		chunk := (len(cur) + n - 1) / n
		reduced := false
		for i := 0; i < len(cur) && tries < budget; i += chunk {
			end := i + chunk
			if end > len(cur) {
				end = len(cur)
			}
			cand := append(append([]Intent(nil), cur[:i]...), cur[end:]...)
			if len(cand) > 0 && same(cand) {
				cur = cand
				if n > 2 {
					n--
				}
				reduced = true
				break
			}
		}
		if !reduced {
			if chunk == 1 {
				break
			}
			n *= 2
			if n > len(cur) {
				n = len(cur)
			}
		}
	}
	// simplify arguments: drop transport faults, shrink block counts and gaps, absent validators, fees, amounts
	try := func(i int, f func(in *Intent) bool) {
		if tries >= budget {
			return
		}
		c := append([]Intent(nil), cur...)
		if !f(&c[i]) {
			return
		}
		if same(c) {
			cur = c
		}
	}
	for i := range cur {
		try(i, func(in *Intent) bool {
			if in.Net == "" {
				return false
			}
			in.Net = ""
			return true
		})
		try(i, func(in *Intent) bool {
			if in.T != "block" || in.N <= 1 {
				return false
			}
			in.N = 1
			return true
		})
		try(i, func(in *Intent) bool {
			if in.T != "block" || (in.Dt == 5 && len(in.Miss) == 0) {
				return false
			}
			in.Dt, in.Miss = 5, nil
			return true
		})
		try(i, func(in *Intent) bool {
			if (in.T != "user_send" && in.T != "ext_deposit") || in.Fee == "" || in.Fee == "0" {
				return false
			}
			in.Fee = "0"
			return true
		})
		try(i, func(in *Intent) bool {
			// a round amount of the same magnitude: first digit kept, the rest zeros
			if (in.T != "user_send" && in.T != "ext_deposit") || len(in.Amt) < 3 || strings.Trim(in.Amt[1:], "0") == "" || in.Amt[0] == '-' {
				return false
			}
			in.Amt = in.Amt[:1] + strings.Repeat("0", len(in.Amt)-1)
			return true
		})
	}
	return cur
}

// ReplayFile is the on-disk form of a failing run.
type ReplayFile struct {
	Property    string     `json:"property"`
	Signature   string     `json:"signature"`
	Violation   *Violation `json:"violation"`
	Seed        int64      `json:"seed"`
	Config      Config     `json:"config"`
	Intents     []Intent   `json:"intents"`
	OriginalLen int        `json:"original_intents"`
	Crash       string     `json:"crash,omitempty"`
}

func WriteReplay(dir string, res *RunResult, viol *Violation, min []Intent) (string, error) {
	if err := os.MkdirAll(dir, 0o755); err != nil {
		return "", err
	}
	sig := viol.Signature()
	h := sha256.Sum256([]byte(sig))
	path := fmt.Sprintf("%s/%s-%d-%s.json", dir, res.Property, res.Seed, hex.EncodeToString(h[:4]))
	rf := ReplayFile{Property: res.Property, Signature: sig, Violation: viol, Seed: res.Seed, Config: res.Cfg, Intents: min, OriginalLen: len(res.Intents), Crash: res.CrashStr}
	b, _ := json.MarshalIndent(rf, "", " ")
	return path, os.WriteFile(path, b, 0o644)
}

func ReadReplay(path string) (*ReplayFile, error) {
	b, err := os.ReadFile(path)
	if err != nil {
		return nil, err
	}
	var rf ReplayFile
	if err := json.Unmarshal(b, &rf); err != nil {
		return nil, err
	}
	return &rf, nil
}
