package sim

import (
	"encoding/json"
	"fmt"
	"os"
	"os/exec"
	"path/filepath"
	"strings"
)

// Cross-process leg of C06. In-process replicas share one address space, one environment and one set of package
// variables; "independent of process instance" is decided by executing the same trace again in a FRESH OS process
// whose environment differs in everything a state machine must not read (scheduler width, time zone, locale,
// working directory, home, GC pacing) and comparing the per-block trail: app hash, begin/end-block event digests,
// every transaction's code, events and data.

var xprocEnvs = [][]string{
	{"GOMAXPROCS=1", "TZ=Pacific/Kiritimati", "LANG=tr_TR.UTF-8", "LC_ALL=tr_TR.UTF-8", "HOME=/nonexistent", "GOGC=25"},
	{"GOMAXPROCS=16", "TZ=America/Adak", "LANG=C", "LC_ALL=C", "HOME=/", "GOGC=400"},
	{"GOMAXPROCS=3", "TZ=Asia/Kathmandu", "LANG=ja_JP.eucJP", "USER=nobody", "HOSTNAME=other-host", "HOME=/var/tmp", "GOGC=off"},
}

// CrashTag names a crash without anything process-specific (no addresses, no goroutine numbers).
func CrashTag(res *RunResult) string {
	if res.Crash != nil {
		return "crash=" + res.Crash.Kind + ":" + res.Crash.Call
	}
	if res.CrashStr != "" {
		return "crash=setup"
	}
	return ""
}

// ChildTrail is what `mhubsim trail <file>` prints: the trail of the trace in this process.
func ChildTrail(path string) ([]string, error) {
	rf, err := ReadReplay(path)
	if err != nil {
		return nil, err
	}
	res := Replay(rf.Property, rf.Config, rf.Intents, false)
	out := append([]string(nil), res.Trail...)
	if t := CrashTag(res); t != "" {
		out = append(out, t)
	}
	return out, nil
}

// CrossProcess returns a violation when a fresh process with environment variant `variant` produces another trail.
// infra != nil means the comparison could not be made (never a violation).
func CrossProcess(workDir string, prop string, cfg Config, intents []Intent, trail []string, crash string, variant int) (v *Violation, infra error) {
	self, err := os.Executable()
	if err != nil {
		return nil, err
	}
	if err := os.MkdirAll(workDir, 0o755); err != nil {
		return nil, err
	}
	f, err := os.CreateTemp(workDir, "xproc-*.json")
	if err != nil {
		return nil, err
	}
	defer os.Remove(f.Name())
	b, _ := json.Marshal(ReplayFile{Property: prop, Config: cfg, Intents: intents})
	f.Write(b)
	f.Close()
	env := xprocEnvs[variant%len(xprocEnvs)]
	c := exec.Command(self, "trail", f.Name())
	c.Env = append([]string{"PATH=/usr/bin:/bin"}, env...)
	if variant%2 == 0 {
		c.Dir = "/"
	} else {
		c.Dir = workDir
	}
	outB, err := c.Output()
	if err != nil {
		return nil, fmt.Errorf("child process: %v", err)
	}
	mine := append([]string(nil), trail...)
	if crash != "" {
		mine = append(mine, crash)
	}
	theirs := strings.Split(strings.TrimRight(string(outB), "\n"), "\n")
	if len(theirs) == 1 && theirs[0] == "" {
		theirs = nil
	}
	n := len(mine)
	if len(theirs) < n {
		n = len(theirs)
	}
	for i := 0; i < n; i++ {
		if mine[i] != theirs[i] {
			site := "trail"
			a, bb := strings.Fields(mine[i]), strings.Fields(theirs[i])
			for k := 0; k < len(a) && k < len(bb); k++ {
				if a[k] != bb[k] {
					site = strings.SplitN(a[k], "=", 2)[0]
					break
				}
			}
			return &Violation{Property: "C06", Oracle: "process", Site: site,
				Message: fmt.Sprintf("a fresh OS process (%s) executing the same blocks diverges at block record %d: here %q, there %q", strings.Join(env, " "), i, mine[i], theirs[i])}, nil
		}
	}
	if len(mine) != len(theirs) {
		return &Violation{Property: "C06", Oracle: "process", Site: "length",
			Message: fmt.Sprintf("a fresh OS process (%s) executing the same blocks produced %d block records, this one %d", strings.Join(env, " "), len(theirs), len(mine))}, nil
	}
	return nil, nil
}

// XprocWorkDir is where the hand-over files of the cross-process leg live.
func XprocWorkDir(root string) string { return filepath.Join(root, "work", "xproc") }
