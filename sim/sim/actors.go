package sim

import (
	"encoding/hex"
	"encoding/json"
	"fmt"
	"math/big"
	"os"
	"sort"
	"strconv"
	"strings"

	"mhubsim/ext"
	"mhubsim/hub"

	mhub2types "github.com/MinterTeam/mhub2/module/x/mhub2/types"
	sdk "github.com/cosmos/cosmos-sdk/types"
	"github.com/cosmos/cosmos-sdk/types/query"
	gethcommon "github.com/ethereum/go-ethereum/common"
)

func bigOf(s string) *big.Int {
	v, ok := new(big.Int).SetString(s, 10)
	if !ok {
		return new(big.Int)
	}
	return v
}

func (w *World) user(i int) *User {
	if len(w.Users) == 0 {
		return nil
	}
	if i < 0 {
		i = -i
	}
	return w.Users[i%len(w.Users)]
}

func (w *World) val(i int) *ValActor {
	if i < 0 {
		i = -i
	}
	return w.Vals[i%len(w.Vals)]
}

// signerFor resolves who signs an orchestrator-ish tx.
func (w *World) signerFor(v *ValActor, chain, as string) *hub.Account {
	switch as {
	case "", "orch":
		if w.Cfg.Keys[v.Idx][w.Cfg.ChainIdx(chain)] || w.KeysSet[fmt.Sprintf("%d/%s", v.Idx, chain)] {
			return v.Orch[chain]
		}
		return v.Oper
	case "oper":
		return v.Oper
	default:
		if a, ok := w.Extra[as]; ok {
			return a
		}
		return v.Oper
	}
}

func eip55(a [20]byte) string { return gethcommon.BytesToAddress(a[:]).Hex() }

// destHex resolves an intent destination into a 42-char hex address.
func (w *World) destHex(dest string, def *User) string {
	switch {
	case dest == "" || dest == "self":
		return eip55(def.Eth())
	case strings.HasPrefix(dest, "u"):
		k, _ := strconv.Atoi(dest[1:])
		return eip55(w.user(k).Eth())
	default:
		return dest
	}
}

// ---------------------------------------------------------------- users on the hub

func (w *World) doUserSend(in Intent) {
	u := w.user(in.U)
	amt, fee := bigOf(in.Amt), bigOf(in.Fee)
	msg := &mhub2types.MsgSendToExternal{Sender: u.Acc.Addr.String(), ExternalRecipient: w.destHex(in.Dest, u),
		Amount: sdk.Coin{Denom: in.Denom, Amount: sdk.NewIntFromBigInt(amt)}, BridgeFee: sdk.Coin{Denom: in.Denom, Amount: sdk.NewIntFromBigInt(fee)}, ChainId: in.Chain}
	msgs := []sdk.Msg{msg}
	// several withdrawals in ONE hub transaction (they share the transaction hash)
	for i := 1; i < in.N && i < 5; i++ {
		m2 := *msg
		msgs = append(msgs, &m2)
	}
	w.Submit("user_send", u.Acc, in.Net, map[string]string{"chain": in.Chain, "denom": in.Denom, "amt": in.Amt, "fee": in.Fee, "user": strconv.Itoa(u.Idx), "n": strconv.Itoa(len(msgs))}, msgs...)
}

func (w *World) doUserCancel(in Intent) {
	u := w.user(in.U)
	id := in.ID
	if id == 0 {
		// pick-th entry of the chain's pool as currently committed (any owner: wrong-sender cancels are part of the workload)
		pool := w.ReadState().Pool(in.Chain)
		if len(pool) > 0 {
			id = pool[in.Pick%len(pool)].Id
			if in.Op == "own" {
				var own []uint64
				for _, p := range pool {
					if p.Sender == u.Acc.Addr.String() {
						own = append(own, p.Id)
					}
				}
				if len(own) > 0 {
					id = own[in.Pick%len(own)]
				}
			}
		} else {
			id = uint64(1 + in.Pick)
		}
	}
	signer := u.Acc
	if in.As != "" {
		if a, ok := w.Extra[in.As]; ok {
			signer = a
		}
	}
	// the chain named in the message may differ from the chain whose pool the id was taken from
	msgChain := in.Chain
	switch in.Chain2 {
	case "":
	case "prefix":
		if len(msgChain) > 1 {
			msgChain = msgChain[:len(msgChain)-1]
		}
	case "prefix3":
		if len(msgChain) > 3 {
			msgChain = msgChain[:3]
		}
	case "empty":
		msgChain = ""
	default:
		msgChain = in.Chain2
	}
	if msgChain != in.Chain {
		w.St.Fault("op_cancel_wrong_chain")
	}
	msg := &mhub2types.MsgCancelSendToExternal{Id: id, Sender: signer.Addr.String(), ChainId: msgChain}
	w.Submit("user_cancel", signer, in.Net, map[string]string{"chain": msgChain, "id": strconv.FormatUint(id, 10)}, msg)
}

func (w *World) doRequestBatch(in Intent) {
	u := w.user(in.U)
	msg := &mhub2types.MsgRequestBatchTx{Denom: in.Denom, Signer: u.Acc.Addr.String(), ChainId: in.Chain}
	w.Submit("req_batch", u.Acc, in.Net, map[string]string{"chain": in.Chain, "denom": in.Denom}, msg)
}

// ---------------------------------------------------------------- users on external chains

func (w *World) doExtDeposit(in Intent) {
	u := w.user(in.U)
	t := w.Cfg.Token(in.Chain, in.Denom)
	if t == nil {
		return
	}
	amt, fee := bigOf(in.Amt), bigOf(in.Fee)
	var destUser = u
	if strings.HasPrefix(in.Dest, "u") {
		k, _ := strconv.Atoi(in.Dest[1:])
		destUser = w.user(k)
	}
	if in.Chain == "minter" {
		if w.Minter == nil {
			return
		}
		cmd := ext.Command{Fee: in.Fee}
		switch in.Chain2 {
		case "hub":
			cmd.Type = "send_to_hub"
			cmd.Recipient = destUser.Acc.Addr.String()
		case "ethereum":
			cmd.Type = "send_to_ethereum"
			cmd.Recipient = eip55(destUser.Eth())
		case "bsc":
			cmd.Type = "send_to_bsc"
			cmd.Recipient = eip55(destUser.Eth())
		default:
			cmd.Type = in.Chain2
			cmd.Recipient = eip55(destUser.Eth())
		}
		switch in.Op { // recipient spellings the connector accepts as a valid hex address
		case "bare":
			cmd.Recipient = strings.TrimPrefix(cmd.Recipient, "0x")
		case "0X":
			if strings.HasPrefix(cmd.Recipient, "0x") {
				cmd.Recipient = "0X" + cmd.Recipient[2:]
			}
		case "lower":
			cmd.Recipient = strings.ToLower(cmd.Recipient)
		}
		if in.Mut != "" { // malformed command payloads
			cmd.Recipient = in.Mut
		}
		payload, _ := json.Marshal(cmd)
		w.Minter.Send(u.Mx(), w.Minter.MultisigAddr, mustUint(t.ExtID), amt, payload)
		w.St.Inc("ext:minter_deposit")
		_ = fee
		return
	}
	e := w.Eth[in.Chain]
	if e == nil {
		return
	}
	tok := ext.ParseAddr(t.ExtID)
	e.Mint(tok, u.Eth(), amt) // faucet
	var dest [32]byte
	if in.Chain2 == "hub" {
		copy(dest[12:], destUser.Acc.Addr.Bytes())
	} else {
		a := destUser.Eth()
		copy(dest[12:], a[:])
	}
	ev, err := e.TransferToChain(u.Eth(), tok, in.Chain2, dest, amt, fee)
	c := &ExtCall{Chain: in.Chain, Kind: "deposit", Err: err, Info: map[string]string{}}
	if ev != nil {
		c.Info["nonce"] = strconv.FormatUint(ev.EventNonce, 10)
	}
	for _, o := range w.Oracles {
		o.OnExtCall(w, c)
	}
	w.St.Inc("ext:eth_deposit")
}

func (w *World) doExtTick(in Intent) {
	if in.Chain == "minter" {
		if w.Minter != nil {
			for i := 0; i < in.N && i < 50; i++ {
				w.Minter.NextBlock()
			}
		}
		return
	}
	if e := w.Eth[in.Chain]; e != nil {
		e.Height += uint64(in.N)
		w.St.Fault("ext_burst")
	}
}

// ---------------------------------------------------------------- orchestrators: event watcher

// ClaimMeta describes one claim message inside a tx, for the oracles.
type ClaimMeta struct {
	Val   int
	Chain string
	Nonce uint64
	Hash  string // hex of event.Hash() is NOT stored here (implementation); this is the harness label
	True  bool   // equals the external model's event
	Label string
}

// TrueClaim builds the claim an honest orchestrator sends for external event #nonce, or nil.
func (w *World) TrueClaim(chain string, nonce uint64) mhub2types.ExternalEvent {
	if chain == "minter" {
		if w.Minter == nil {
			return nil
		}
		for _, ev := range w.MinterEvents() {
			if ev.EventNonce == nonce {
				return w.minterClaim(ev)
			}
		}
		return nil
	}
	e := w.Eth[chain]
	if e == nil {
		return nil
	}
	ev := e.EventByNonce(nonce)
	if ev == nil {
		return nil
	}
	return w.ethClaim(chain, ev)
}

func (w *World) extIDString(chain string, tok [20]byte) string {
	for _, t := range w.Cfg.Tokens {
		if t.Chain == chain && ext.ParseAddr(t.ExtID) == tok {
			return t.ExtID
		}
	}
	return eip55(tok)
}

func (w *World) ethClaim(chain string, ev *ext.EthEvent) mhub2types.ExternalEvent {
	switch ev.Kind {
	case ext.EvTransferToChain:
		var d [20]byte
		copy(d[:], ev.Dest[12:])
		return &mhub2types.TransferToChainEvent{EventNonce: ev.EventNonce, ExternalCoinId: w.extIDString(chain, ev.Token),
			Amount: sdk.NewIntFromBigInt(ev.Amount), Fee: sdk.NewIntFromBigInt(ev.Fee), Sender: eip55(ev.Sender),
			ReceiverChainId: ev.DestChain, ExternalReceiver: eip55(d), ExternalHeight: ev.Height, TxHash: ev.TxHash}
	case ext.EvBatchExecuted:
		return &mhub2types.BatchExecutedEvent{ExternalCoinId: w.extIDString(chain, ev.Token), EventNonce: ev.EventNonce, ExternalHeight: ev.Height,
			BatchNonce: ev.BatchNonce, TxHash: ev.TxHash, FeePaid: sdk.NewIntFromBigInt(ev.FeePaid), FeePayer: eip55(ev.FeePayer)}
	case ext.EvValsetUpdated:
		var ms []*mhub2types.ExternalSigner
		for _, m := range ev.Members {
			ms = append(ms, &mhub2types.ExternalSigner{Power: m.Power, ExternalAddress: eip55(m.Addr)})
		}
		if ms == nil {
			ms = []*mhub2types.ExternalSigner{}
		}
		return &mhub2types.SignerSetTxExecutedEvent{EventNonce: ev.EventNonce, SignerSetTxNonce: ev.ValsetNonce, ExternalHeight: ev.Height, Members: ms, TxHash: ev.TxHash}
	case ext.EvLogicCall:
		return &mhub2types.ContractCallExecutedEvent{EventNonce: ev.EventNonce, InvalidationScope: ev.InvalidationID[:], InvalidationNonce: ev.InvalidationNonce,
			ExternalHeight: ev.Height, TxHash: ev.TxHash}
	}
	return nil
}

func hubAddrOK(s string) bool {
	_, err := sdk.AccAddressFromBech32(s)
	return err == nil
}

// MinterEvents is the numbering every honest connector computes (cached per Minter height).
func (w *World) MinterEvents() []ext.MEvent {
	if w.Minter == nil {
		return nil
	}
	if w.mEvCacheH == w.Minter.Height && w.mEvCache != nil {
		return w.mEvCache
	}
	w.mEvCache = w.Minter.BridgeEvents(hubAddrOK)
	w.mEvCacheH = w.Minter.Height
	return w.mEvCache
}

func (w *World) minterClaim(ev ext.MEvent) mhub2types.ExternalEvent {
	tx := ev.Tx
	switch ev.Kind {
	case ext.MDeposit:
		fee := bigOf(ev.Cmd.Fee)
		sender := "0x" + tx.From[2:]
		coin := strconv.FormatUint(tx.Coin, 10)
		switch ev.Cmd.Type {
		case "send_to_hub":
			return &mhub2types.SendToHubEvent{EventNonce: ev.EventNonce, ExternalCoinId: coin, Amount: sdk.NewIntFromBigInt(tx.Value), Sender: sender,
				CosmosReceiver: ev.Cmd.Recipient, ExternalHeight: tx.Height, TxHash: tx.Hash}
		default:
			rc := "ethereum"
			if ev.Cmd.Type == "send_to_bsc" {
				rc = "bsc"
			}
			return &mhub2types.TransferToChainEvent{EventNonce: ev.EventNonce, ExternalCoinId: coin, Amount: sdk.NewIntFromBigInt(tx.Value), Fee: sdk.NewIntFromBigInt(fee),
				// the connector hands the recipient over as the depositor spelled it (40 hex digits with 0x, 0X or no prefix)
				Sender: sender, ReceiverChainId: rc, ExternalReceiver: ev.Cmd.Recipient, ExternalHeight: tx.Height, TxHash: tx.Hash}
		}
	case ext.MBatch:
		return &mhub2types.BatchExecutedEvent{ExternalCoinId: strconv.FormatUint(tx.Items[0].Coin, 10), EventNonce: ev.EventNonce, ExternalHeight: tx.Height,
			BatchNonce: ev.BatchNonce, TxHash: tx.Hash, FeePaid: sdk.ZeroInt()}
	case ext.MValset:
		var ms []*mhub2types.ExternalSigner
		for i := range tx.Addresses {
			ms = append(ms, &mhub2types.ExternalSigner{Power: uint64(tx.Weights[i]), ExternalAddress: "0x" + tx.Addresses[i][2:]})
		}
		return &mhub2types.SignerSetTxExecutedEvent{EventNonce: ev.EventNonce, SignerSetTxNonce: ev.ValsetNonce, ExternalHeight: tx.Height, Members: ms, TxHash: tx.Hash}
	}
	return nil
}

// lastExtNonce is the newest event nonce on an external chain.
func (w *World) lastExtNonce(chain string) uint64 {
	if chain == "minter" {
		evs := w.MinterEvents()
		if len(evs) == 0 {
			return 0
		}
		return evs[len(evs)-1].EventNonce
	}
	if e := w.Eth[chain]; e != nil {
		return e.EventNonce
	}
	return 0
}

// hubLastNonce asks the hub (public query, committed state) which nonce it acknowledged for this signer.
func (w *World) hubLastNonce(chain string, signer sdk.AccAddress) (uint64, bool) {
	var resp mhub2types.LastSubmittedExternalEventResponse
	err := w.N().Query("/mhub2.v1.Query/LastSubmittedExternalEvent", &mhub2types.LastSubmittedExternalEventRequest{Address: signer.String(), ChainId: chain}, &resp)
	if err != nil {
		return 0, false
	}
	return resp.EventNonce, true
}

func (w *World) doOrchPoll(in Intent) {
	v := w.val(in.V)
	signer := w.signerFor(v, in.Chain, in.As)
	last, ok := w.hubLastNonce(in.Chain, signer.Addr)
	if !ok {
		// not a bonded validator / unknown: an orchestrator would still try from the hub's last observed nonce
		last = w.ReadState().LastObservedEventNonce(in.Chain)
		w.St.Inc("orch_poll:no-ack")
	}
	start := last + 1 + uint64(in.Skip)
	if in.Op == "behind" && last > 0 {
		start = last // re-send the last one (duplicate vote attempt)
		w.St.Fault("orch_repeat")
	}
	if in.Skip > 0 {
		w.St.Fault("orch_skip_ahead")
		// an orchestrator that skipped a nonce can never vote for it again: it is not part of the honest quorum
		// of this chain any more (bounded liveness is owed only with >= 66 % honest live power)
		w.SkippedAhead[in.Chain+"/"+v.Oper.ValAddr().String()] = true
	}
	max := in.N
	if max < 1 {
		max = 1
	}
	if max > 10 {
		max = 10
	}
	var msgs []sdk.Msg
	var nonces []string
	top := w.lastExtNonce(in.Chain)
	for n := start; n <= top && len(msgs) < max; n++ {
		ev := w.TrueClaim(in.Chain, n)
		if ev == nil {
			break
		}
		any, err := mhub2types.PackEvent(ev)
		if err != nil {
			break
		}
		msgs = append(msgs, &mhub2types.MsgSubmitExternalEvent{Event: any, Signer: signer.Addr.String(), ChainId: in.Chain})
		nonces = append(nonces, strconv.FormatUint(n, 10))
	}
	if len(msgs) == 0 {
		return
	}
	meta := map[string]string{"chain": in.Chain, "val": strconv.Itoa(v.Idx), "nonces": strings.Join(nonces, ","), "true": "1"}
	if in.Mut == "then_fail" {
		// the claims are followed, in the same transaction, by a message that fails: nothing of them may remain
		meta["poison"] = "1"
		w.St.Fault("claims_rolled_back")
		msgs = append(msgs, &mhub2types.MsgCancelSendToExternal{Id: 1 << 40, Sender: signer.Addr.String(), ChainId: in.Chain})
	}
	w.Submit("claim", signer, in.Net, meta, msgs...)
}

// ---------------------------------------------------------------- orchestrators: signer

func (w *World) queryUnsigned(chain string, signer sdk.AccAddress) (ss []*mhub2types.SignerSetTx, bs []*mhub2types.BatchTx, cs []*mhub2types.ContractCallTx, ok bool) {
	var r1 mhub2types.UnsignedSignerSetTxsResponse
	if err := w.N().Query("/mhub2.v1.Query/UnsignedSignerSetTxs", &mhub2types.UnsignedSignerSetTxsRequest{Address: signer.String(), ChainId: chain}, &r1); err != nil {
		return nil, nil, nil, false
	}
	var r2 mhub2types.UnsignedBatchTxsResponse
	if err := w.N().Query("/mhub2.v1.Query/UnsignedBatchTxs", &mhub2types.UnsignedBatchTxsRequest{Address: signer.String(), ChainId: chain}, &r2); err != nil {
		return nil, nil, nil, false
	}
	var r3 mhub2types.UnsignedContractCallTxsResponse
	if err := w.N().Query("/mhub2.v1.Query/UnsignedContractCallTxs", &mhub2types.UnsignedContractCallTxsRequest{Address: signer.String(), ChainId: chain}, &r3); err != nil {
		return nil, nil, nil, false
	}
	return r1.SignerSets, r2.Batches, r3.Calls, true
}

func membersOf(ss *mhub2types.SignerSetTx) []ext.Member {
	var ms []ext.Member
	for _, s := range ss.Signers {
		ms = append(ms, ext.Member{Addr: ext.ParseAddr(s.ExternalAddress), Power: s.Power})
	}
	return ms
}

func batchCallOf(b *mhub2types.BatchTx) ext.BatchCall {
	bc := ext.BatchCall{Nonce: b.BatchNonce, Token: ext.ParseAddr(b.ExternalTokenId), Timeout: b.Timeout}
	for _, tx := range b.Transactions {
		bc.Amounts = append(bc.Amounts, tx.Token.Amount.BigInt())
		bc.Destinations = append(bc.Destinations, ext.ParseAddr(tx.ExternalRecipient))
		bc.Fees = append(bc.Fees, tx.Fee.Amount.BigInt())
	}
	return bc
}

func logicCallOf(c *mhub2types.ContractCallTx) ext.LogicCall {
	lc := ext.LogicCall{LogicContract: ext.ParseAddr(c.Address), Payload: c.Payload, Timeout: c.Timeout, InvalidationNonce: c.InvalidationNonce}
	copy(lc.InvalidationID[:], c.InvalidationScope)
	for _, t := range c.Tokens {
		lc.TransferAmounts = append(lc.TransferAmounts, t.Amount.BigInt())
		lc.TransferTokens = append(lc.TransferTokens, ext.ParseAddr(t.ExternalTokenId))
	}
	for _, t := range c.Fees {
		lc.FeeAmounts = append(lc.FeeAmounts, t.Amount.BigInt())
		lc.FeeTokens = append(lc.FeeTokens, ext.ParseAddr(t.ExternalTokenId))
	}
	return lc
}

// minterBatchTx / minterValsetTx: what the connector's relayBatches / relayValsets build.
func (w *World) minterBatchTx(b *mhub2types.BatchTx) ext.MTx {
	tx := ext.MTx{Type: ext.MTypeMultisend, From: w.Minter.MultisigAddr, Nonce: b.Sequence}
	for _, out := range b.Transactions {
		to := out.ExternalRecipient
		if len(to) >= 2 {
			to = "Mx" + strings.ToLower(to[2:])
		}
		tx.Items = append(tx.Items, ext.MItem{Coin: mustUint(out.Token.ExternalTokenId), To: to, Value: out.Token.Amount.BigInt()})
	}
	return tx
}

func (w *World) minterValsetTx(ss *mhub2types.SignerSetTx) ext.MTx {
	tx := ext.MTx{Type: ext.MTypeEditMultisig, From: w.Minter.MultisigAddr, Nonce: ss.Sequence, Threshold: 667, Payload: []byte(strconv.FormatUint(ss.Nonce, 10))}
	var tot uint64
	for _, s := range ss.Signers {
		tot += s.Power
	}
	for _, s := range ss.Signers {
		a := ext.ParseAddr(s.ExternalAddress)
		tx.Addresses = append(tx.Addresses, "Mx"+hex.EncodeToString(a[:]))
		var wgt uint32
		if tot > 0 {
			wgt = uint32(new(big.Int).Quo(new(big.Int).Mul(new(big.Int).SetUint64(s.Power), big.NewInt(1000)), new(big.Int).SetUint64(tot)).Uint64())
		}
		tx.Weights = append(tx.Weights, wgt)
	}
	return tx
}

func (w *World) doOrchSign(in Intent) {
	v := w.val(in.V)
	signer := w.signerFor(v, in.Chain, in.As)
	ss, bs, cs, ok := w.queryUnsigned(in.Chain, signer.Addr)
	if !ok {
		w.St.Inc("orch_sign:no-access")
		return
	}
	key := v.ExtKey[in.Chain]
	extHex := v.ExtHex(in.Chain)
	var msgs []sdk.Msg
	add := func(c mhub2types.ExternalTxConfirmation) {
		any, err := mhub2types.PackConfirmation(c)
		if err != nil {
			return
		}
		msgs = append(msgs, &mhub2types.MsgSubmitExternalTxConfirmation{Confirmation: any, Signer: signer.Addr.String(), ChainId: in.Chain})
	}
	max := in.N
	if max < 1 {
		max = 10
	}
	if in.Chain == "minter" {
		if w.Minter == nil {
			return
		}
		for _, s := range ss {
			tx := w.minterValsetTx(s)
			add(&mhub2types.SignerSetTxConfirmation{SignerSetNonce: s.Nonce, ExternalSigner: extHex, Signature: ext.MinterSign(&tx, key)})
		}
		for _, b := range bs {
			tx := w.minterBatchTx(b)
			add(&mhub2types.BatchTxConfirmation{ExternalTokenId: b.ExternalTokenId, BatchNonce: b.BatchNonce, ExternalSigner: extHex, Signature: ext.MinterSign(&tx, key)})
		}
	} else {
		e := w.Eth[in.Chain]
		if e == nil {
			return
		}
		for _, s := range ss {
			d := ext.MakeCheckpoint(membersOf(s), s.Nonce, e.GravityID)
			add(&mhub2types.SignerSetTxConfirmation{SignerSetNonce: s.Nonce, ExternalSigner: extHex, Signature: ext.SignDigest(d, key)})
		}
		for _, b := range bs {
			d := ext.BatchHash(batchCallOf(b), e.GravityID)
			add(&mhub2types.BatchTxConfirmation{ExternalTokenId: b.ExternalTokenId, BatchNonce: b.BatchNonce, ExternalSigner: extHex, Signature: ext.SignDigest(d, key)})
		}
		for _, c := range cs {
			d := ext.LogicCallHash(logicCallOf(c), e.GravityID)
			add(&mhub2types.ContractCallTxConfirmation{InvalidationScope: c.InvalidationScope, InvalidationNonce: c.InvalidationNonce, ExternalSigner: extHex, Signature: ext.SignDigest(d, key)})
		}
	}
	for len(msgs) > 0 {
		k := len(msgs)
		if k > max {
			k = max
		}
		w.Submit("confirm", signer, in.Net, map[string]string{"chain": in.Chain, "val": strconv.Itoa(v.Idx)}, msgs[:k]...)
		msgs = msgs[k:]
		break // one tx per intent (same-account sequence); the rest is picked up by the next orch_sign
	}
}

// ---------------------------------------------------------------- relayers

func (w *World) querySignerSets(chain string) []*mhub2types.SignerSetTx {
	var r mhub2types.SignerSetTxsResponse
	if err := w.N().Query("/mhub2.v1.Query/SignerSetTxs", &mhub2types.SignerSetTxsRequest{ChainId: chain, Pagination: &query.PageRequest{Limit: 1000}}, &r); err != nil {
		return nil
	}
	sort.SliceStable(r.SignerSets, func(i, j int) bool { return r.SignerSets[i].Nonce < r.SignerSets[j].Nonce })
	return r.SignerSets
}

// hubCurrentValset is what the real relayer passes to the contract as "current validator set": the hub's
// LastObservedSignerSetTx (orchestrator/relayer/src/find_latest_valset.rs), not anything read from the contract.
func (w *World) hubCurrentValset(chain string) (members []ext.Member, nonce uint64, ok bool) {
	var r mhub2types.SignerSetTxResponse
	if err := w.N().Query("/mhub2.v1.Query/LastObservedSignerSetTx", &mhub2types.LastObservedSignerSetTxRequest{ChainId: chain}, &r); err != nil || r.SignerSet == nil {
		return nil, 0, false
	}
	return membersOf(r.SignerSet), r.SignerSet.Nonce, true
}

func (w *World) queryBatches(chain string) []*mhub2types.BatchTx {
	var r mhub2types.BatchTxsResponse
	if err := w.N().Query("/mhub2.v1.Query/BatchTxs", &mhub2types.BatchTxsRequest{ChainId: chain, Pagination: &query.PageRequest{Limit: 1000}}, &r); err != nil {
		return nil
	}
	sort.SliceStable(r.Batches, func(i, j int) bool { return r.Batches[i].Sequence < r.Batches[j].Sequence })
	return r.Batches
}

func (w *World) querySignerSetConfs(chain string, nonce uint64) []*mhub2types.SignerSetTxConfirmation {
	var r mhub2types.SignerSetTxConfirmationsResponse
	if err := w.N().Query("/mhub2.v1.Query/SignerSetTxConfirmations", &mhub2types.SignerSetTxConfirmationsRequest{SignerSetNonce: nonce, ChainId: chain}, &r); err != nil {
		return nil
	}
	return r.Signatures
}

func (w *World) queryBatchConfs(chain, tok string, nonce uint64) []*mhub2types.BatchTxConfirmation {
	var r mhub2types.BatchTxConfirmationsResponse
	if err := w.N().Query("/mhub2.v1.Query/BatchTxConfirmations", &mhub2types.BatchTxConfirmationsRequest{BatchNonce: nonce, ExternalTokenId: tok, ChainId: chain}, &r); err != nil {
		return nil
	}
	return r.Signatures
}

func (w *World) queryCallConfs(chain string, scope []byte, nonce uint64) []*mhub2types.ContractCallTxConfirmation {
	var r mhub2types.ContractCallTxConfirmationsResponse
	if err := w.N().Query("/mhub2.v1.Query/ContractCallTxConfirmations", &mhub2types.ContractCallTxConfirmationsRequest{InvalidationNonce: nonce, InvalidationScope: scope, ChainId: chain}, &r); err != nil {
		return nil
	}
	return r.Signatures
}

type relayMemo struct {
	b    *mhub2types.BatchTx
	sigs map[[20]byte][]byte
}

// alignSigs orders signatures by the contract's current member list; mask selects which members' sigs to use.
func alignSigs(cur []ext.Member, sigBy map[[20]byte][]byte, mask uint64, digest [32]byte) []ext.Sig {
	out := make([]ext.Sig, len(cur))
	for i, m := range cur {
		if mask != 0 && mask&(1<<uint(i%64)) == 0 {
			continue
		}
		if raw, ok := sigBy[m.Addr]; ok {
			if s, ok := ext.SigFromBytes(raw); ok && ext.VerifySig(m.Addr, digest, s) {
				out[i] = s
			}
		}
	}
	return out
}

func (w *World) doRelay(in Intent) {
	if in.Chain == "minter" {
		w.doRelayMinter(in)
		return
	}
	e := w.Eth[in.Chain]
	if e == nil {
		return
	}
	// relayers have their own addresses (never a user's), so fee reimbursements stay attributable
	relayer := ext.ParseAddr(fmt.Sprintf("0x00000000000000000000000000000000e1a7e%03x", in.U%4096))
	switch in.Op {
	case "valset":
		var cands []*mhub2types.SignerSetTx
		for _, s := range w.querySignerSets(in.Chain) {
			if s.Nonce > e.ValsetNonce || in.Mut == "stale" {
				cands = append(cands, s)
			}
		}
		if len(cands) == 0 {
			return
		}
		s := cands[in.Pick%len(cands)]
		sigBy := map[[20]byte][]byte{}
		for _, c := range w.querySignerSetConfs(in.Chain, s.Nonce) {
			sigBy[ext.ParseAddr(c.ExternalSigner)] = c.Signature
		}
		cur, curNonce, okc := w.hubCurrentValset(in.Chain)
		if !okc {
			w.St.Inc("relay:no-observed-valset")
			return
		}
		sigs := alignSigs(cur, sigBy, in.Mask, ext.MakeCheckpoint(membersOf(s), s.Nonce, e.GravityID))
		call := &ExtCall{Chain: in.Chain, Kind: "valset", Info: map[string]string{"nonce": strconv.FormatUint(s.Nonce, 10)}, Cur: cur, CurNonce: curNonce}
		if in.Mask == 0 {
			call.Info["full"] = "1" // the relayer submits every confirmation the hub has
		}
		w.preExtCall(call, s, nil, nil, sigs)
		if os.Getenv("MHUBSIM_DEBUG") != "" {
			fmt.Fprintf(os.Stderr, "relay valset %d on %s: hub observed nonce %d members %v | contract nonce %d members %v\n", s.Nonce, in.Chain, curNonce, cur, e.ValsetNonce, e.Valset)
		}
		call.Err = e.UpdateValset(membersOf(s), s.Nonce, cur, curNonce, sigs)
		w.postExtCall(call)
	case "batch", "batch_stale":
		var b *mhub2types.BatchTx
		sigBy := map[[20]byte][]byte{}
		if in.Op == "batch_stale" {
			// a relayer that kept a confirmed batch it fetched earlier and submits it now, whatever the hub
			// thinks of that batch in the meantime (the contract alone decides whether it can still execute)
			mem := w.relayMem[in.Chain]
			if len(mem) == 0 {
				return
			}
			m := mem[in.Pick%len(mem)]
			b, sigBy = m.b, m.sigs
			w.St.Fault("relay_stale_batch")
		} else {
			bs := w.queryBatches(in.Chain)
			if len(bs) == 0 {
				return
			}
			b = bs[in.Pick%len(bs)]
			if in.Pick >= 5 { // 7 = newest, 6 = second newest, 5 = third newest
				k := len(bs) - 1 - (7 - in.Pick)
				if k < 0 {
					k = 0
				}
				b = bs[k]
			}
			for _, c := range w.queryBatchConfs(in.Chain, b.ExternalTokenId, b.BatchNonce) {
				sigBy[ext.ParseAddr(c.ExternalSigner)] = c.Signature
			}
			// remember every pending batch with its confirmations (bounded)
			for _, x := range bs {
				sg := map[[20]byte][]byte{}
				for _, c := range w.queryBatchConfs(in.Chain, x.ExternalTokenId, x.BatchNonce) {
					sg[ext.ParseAddr(c.ExternalSigner)] = c.Signature
				}
				found := false
				for i := range w.relayMem[in.Chain] {
					if w.relayMem[in.Chain][i].b.BatchNonce == x.BatchNonce && w.relayMem[in.Chain][i].b.ExternalTokenId == x.ExternalTokenId {
						w.relayMem[in.Chain][i].sigs = sg
						found = true
					}
				}
				if !found && len(w.relayMem[in.Chain]) < 24 {
					w.relayMem[in.Chain] = append(w.relayMem[in.Chain], relayMemo{b: x, sigs: sg})
				}
			}
		}
		cur, curNonce, okc := w.hubCurrentValset(in.Chain)
		if !okc {
			w.St.Inc("relay:no-observed-valset")
			return
		}
		sigs := alignSigs(cur, sigBy, in.Mask, ext.BatchHash(batchCallOf(b), e.GravityID))
		gas := bigOf(in.Gas)
		call := &ExtCall{Chain: in.Chain, Kind: "batch", Info: map[string]string{"nonce": strconv.FormatUint(b.BatchNonce, 10), "token": b.ExternalTokenId}, Cur: cur, CurNonce: curNonce}
		if in.Mask == 0 && in.Op == "batch" {
			call.Info["full"] = "1"
		}
		w.preExtCall(call, nil, b, nil, sigs)
		call.Err = e.SubmitBatch(cur, curNonce, sigs, batchCallOf(b), relayer, gas)
		w.postExtCall(call)
	case "logic":
		var r mhub2types.ContractCallTxsResponse
		if err := w.N().Query("/mhub2.v1.Query/ContractCallTxs", &mhub2types.ContractCallTxsRequest{ChainId: in.Chain, Pagination: &query.PageRequest{Limit: 1000}}, &r); err != nil || len(r.Calls) == 0 {
			return
		}
		c := r.Calls[in.Pick%len(r.Calls)]
		sigBy := map[[20]byte][]byte{}
		for _, cf := range w.queryCallConfs(in.Chain, c.InvalidationScope, c.InvalidationNonce) {
			sigBy[ext.ParseAddr(cf.ExternalSigner)] = cf.Signature
		}
		cur, curNonce, okc := w.hubCurrentValset(in.Chain)
		if !okc {
			return
		}
		sigs := alignSigs(cur, sigBy, in.Mask, ext.LogicCallHash(logicCallOf(c), e.GravityID))
		call := &ExtCall{Chain: in.Chain, Kind: "logic", Info: map[string]string{"nonce": strconv.FormatUint(c.InvalidationNonce, 10)}, Cur: cur, CurNonce: curNonce}
		w.preExtCall(call, nil, nil, c, sigs)
		call.Err = e.SubmitLogicCall(cur, curNonce, sigs, logicCallOf(c), relayer)
		w.postExtCall(call)
	}
}

func (w *World) doRelayMinter(in Intent) {
	m := w.Minter
	if m == nil {
		return
	}
	switch in.Op {
	case "valset":
		var cands []*mhub2types.SignerSetTx
		for _, s := range w.querySignerSets("minter") {
			if s.Sequence > m.Nonce {
				cands = append(cands, s)
			}
		}
		if len(cands) == 0 {
			return
		}
		s := cands[in.Pick%len(cands)]
		tx := w.minterValsetTx(s)
		var sigs [][]byte
		for i, c := range w.querySignerSetConfs("minter", s.Nonce) {
			if in.Mask != 0 && in.Mask&(1<<uint(i%64)) == 0 {
				continue
			}
			sigs = append(sigs, c.Signature)
		}
		call := &ExtCall{Chain: "minter", Kind: "valset", Info: map[string]string{"nonce": strconv.FormatUint(s.Nonce, 10), "seq": strconv.FormatUint(s.Sequence, 10)}}
		w.preMinterCall(call, &tx, sigs)
		call.Err = m.SubmitMultisig(tx, sigs)
		w.postExtCall(call)
	case "batch":
		var cands []*mhub2types.BatchTx
		for _, b := range w.queryBatches("minter") {
			if b.Sequence > m.Nonce {
				cands = append(cands, b)
			}
		}
		if len(cands) == 0 {
			return
		}
		b := cands[in.Pick%len(cands)]
		tx := w.minterBatchTx(b)
		var sigs [][]byte
		for i, c := range w.queryBatchConfs("minter", b.ExternalTokenId, b.BatchNonce) {
			if in.Mask != 0 && in.Mask&(1<<uint(i%64)) == 0 {
				continue
			}
			sigs = append(sigs, c.Signature)
		}
		call := &ExtCall{Chain: "minter", Kind: "batch", Info: map[string]string{"nonce": strconv.FormatUint(b.BatchNonce, 10), "seq": strconv.FormatUint(b.Sequence, 10), "token": b.ExternalTokenId}}
		w.preMinterCall(call, &tx, sigs)
		call.Err = m.SubmitMultisig(tx, sigs)
		w.postExtCall(call)
	}
}

// preExtCall lets oracles compute their expectation BEFORE the model mutates.
func (w *World) preExtCall(c *ExtCall, ss *mhub2types.SignerSetTx, b *mhub2types.BatchTx, cc *mhub2types.ContractCallTx, sigs []ext.Sig) {
	for _, o := range w.Oracles {
		if p, ok := o.(interface {
			PreExtCall(*World, *ExtCall, *mhub2types.SignerSetTx, *mhub2types.BatchTx, *mhub2types.ContractCallTx, []ext.Sig)
		}); ok {
			p.PreExtCall(w, c, ss, b, cc, sigs)
		}
	}
}

func (w *World) preMinterCall(c *ExtCall, tx *ext.MTx, sigs [][]byte) {
	for _, o := range w.Oracles {
		if p, ok := o.(interface {
			PreMinterCall(*World, *ExtCall, *ext.MTx, [][]byte)
		}); ok {
			p.PreMinterCall(w, c, tx, sigs)
		}
	}
}

func (w *World) postExtCall(c *ExtCall) {
	if c.Err != nil {
		w.St.Inc("ext:" + c.Chain + ":" + c.Kind + ":rejected")
		w.Logf("ext %s %s rejected: %v", c.Chain, c.Kind, c.Err)
	} else {
		w.St.Inc("ext:" + c.Chain + ":" + c.Kind + ":ok")
		w.Logf("ext %s %s ok %v", c.Chain, c.Kind, c.Info["nonce"])
	}
	for _, o := range w.Oracles {
		o.OnExtCall(w, c)
	}
}

var _ = fmt.Sprintf
