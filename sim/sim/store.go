package sim

import (
	"bytes"
	"crypto/sha256"
	"encoding/binary"
	"sort"

	"mhubsim/hub"

	mhub2types "github.com/MinterTeam/mhub2/module/x/mhub2/types"
	oracletypes "github.com/MinterTeam/mhub2/module/x/oracle/types"
	codectypes "github.com/cosmos/cosmos-sdk/codec/types"
	sdk "github.com/cosmos/cosmos-sdk/types"
	banktypes "github.com/cosmos/cosmos-sdk/x/bank/types"
	stakingtypes "github.com/cosmos/cosmos-sdk/x/staking/types"
	gogotypes "github.com/gogo/protobuf/types"
)

// State is a read-only view of one node's current state (live block state inside a block,
// committed state between blocks), decoded from the RAW KV stores with the generated proto
// types — never through the keeper getters a change under test might alter.
type State struct {
	n   *hub.Node
	ctx sdk.Context
	m   sdk.KVStore

	pool    map[string][]*mhub2types.SendToExternal
	batches map[string][]*mhub2types.BatchTx
	ssets   map[string][]*mhub2types.SignerSetTx
}

func (w *World) ReadState() *State { return ReadStateOf(w.N()) }

func ReadStateOf(n *hub.Node) *State {
	ctx := n.Ctx()
	return &State{n: n, ctx: ctx, m: ctx.KVStore(n.App.GetKey("mhub2")), pool: map[string][]*mhub2types.SendToExternal{},
		batches: map[string][]*mhub2types.BatchTx{}, ssets: map[string][]*mhub2types.SignerSetTx{}}
}

func (s *State) Ctx() sdk.Context { return s.ctx }

func prefixEnd(p []byte) []byte {
	e := append([]byte(nil), p...)
	for i := len(e) - 1; i >= 0; i-- {
		e[i]++
		if e[i] != 0 {
			return e[:i+1]
		}
	}
	return nil
}

func iterPrefix(st sdk.KVStore, p []byte, f func(k, v []byte)) {
	it := st.Iterator(p, prefixEnd(p))
	// collect first, then close: never hold a store iterator while calling out
	type kv struct{ k, v []byte }
	var all []kv
	for ; it.Valid(); it.Next() {
		all = append(all, kv{append([]byte(nil), it.Key()...), append([]byte(nil), it.Value()...)})
	}
	it.Close()
	for _, e := range all {
		f(e.k, e.v)
	}
}

func chainKey(b byte, chain string) []byte { return append([]byte{b}, []byte(chain)...) }

// Pool returns the unbatched transfers of a chain in key order (ascending).
func (s *State) Pool(chain string) []*mhub2types.SendToExternal {
	if p, ok := s.pool[chain]; ok {
		return p
	}
	var out []*mhub2types.SendToExternal
	iterPrefix(s.m, chainKey(mhub2types.SendToExternalKey, chain), func(k, v []byte) {
		var ste mhub2types.SendToExternal
		if err := ste.Unmarshal(v); err == nil {
			out = append(out, &ste)
		}
	})
	s.pool[chain] = out
	return out
}

// PoolKeys returns raw keys too (for key/record consistency checks).
func (s *State) PoolRaw(chain string) (keys [][]byte, recs []*mhub2types.SendToExternal) {
	iterPrefix(s.m, chainKey(mhub2types.SendToExternalKey, chain), func(k, v []byte) {
		var ste mhub2types.SendToExternal
		if err := ste.Unmarshal(v); err == nil {
			keys = append(keys, k)
			recs = append(recs, &ste)
		}
	})
	return
}

func (s *State) outgoing(chain string, typ byte, f func(any *codectypes.Any)) {
	p := append(chainKey(mhub2types.OutgoingTxKey, chain), typ)
	iterPrefix(s.m, p, func(k, v []byte) {
		var any codectypes.Any
		if err := any.Unmarshal(v); err == nil {
			f(&any)
		}
	})
}

func (s *State) Batches(chain string) []*mhub2types.BatchTx {
	if b, ok := s.batches[chain]; ok {
		return b
	}
	var out []*mhub2types.BatchTx
	s.outgoing(chain, mhub2types.BatchTxPrefixByte, func(any *codectypes.Any) {
		var b mhub2types.BatchTx
		if err := b.Unmarshal(any.Value); err == nil {
			out = append(out, &b)
		}
	})
	sort.SliceStable(out, func(i, j int) bool { return out[i].BatchNonce < out[j].BatchNonce })
	s.batches[chain] = out
	return out
}

func (s *State) SignerSets(chain string) []*mhub2types.SignerSetTx {
	if b, ok := s.ssets[chain]; ok {
		return b
	}
	var out []*mhub2types.SignerSetTx
	s.outgoing(chain, mhub2types.SignerSetTxPrefixByte, func(any *codectypes.Any) {
		var b mhub2types.SignerSetTx
		if err := b.Unmarshal(any.Value); err == nil {
			out = append(out, &b)
		}
	})
	sort.SliceStable(out, func(i, j int) bool { return out[i].Nonce < out[j].Nonce })
	s.ssets[chain] = out
	return out
}

func (s *State) ContractCalls(chain string) []*mhub2types.ContractCallTx {
	var out []*mhub2types.ContractCallTx
	s.outgoing(chain, mhub2types.ContractCallTxPrefixByte, func(any *codectypes.Any) {
		var b mhub2types.ContractCallTx
		if err := b.Unmarshal(any.Value); err == nil {
			out = append(out, &b)
		}
	})
	return out
}

func (s *State) LatestSignerSet(chain string) *mhub2types.SignerSetTx {
	ss := s.SignerSets(chain)
	if len(ss) == 0 {
		return nil
	}
	return ss[len(ss)-1]
}

func (s *State) u64(key []byte) uint64 {
	bz := s.m.Get(key)
	if len(bz) != 8 {
		return 0
	}
	return binary.BigEndian.Uint64(bz)
}

func (s *State) LastObservedEventNonce(chain string) uint64 {
	return s.u64(chainKey(mhub2types.LastObservedEventNonceKey, chain))
}
func (s *State) LatestSignerSetNonce(chain string) uint64 {
	return s.u64(chainKey(mhub2types.LatestSignerSetTxNonceKey, chain))
}
func (s *State) LastBatchNonce(chain string) uint64 {
	return s.u64(chainKey(mhub2types.LastOutgoingBatchNonceKey, chain))
}
func (s *State) OutgoingSequence(chain string) uint64 {
	return s.u64(chainKey(mhub2types.OutgoingSequence, chain))
}
func (s *State) LastSendID(chain string) uint64 {
	return s.u64(chainKey(mhub2types.LastSendToExternalIDKey, chain))
}
func (s *State) LastEventNonceByVal(chain string, val sdk.ValAddress) (uint64, bool) {
	bz := s.m.Get(mhub2types.MakeLastEventNonceByValidatorKey(mhub2types.ChainID(chain), val))
	if len(bz) != 8 {
		return 0, false
	}
	return binary.BigEndian.Uint64(bz), true
}

func (s *State) LastObservedHeight(chain string) mhub2types.LatestBlockHeight {
	var h mhub2types.LatestBlockHeight
	if bz := s.m.Get(chainKey(mhub2types.LastExternalBlockHeightKey, chain)); len(bz) > 0 {
		_ = h.Unmarshal(bz)
	}
	return h
}

func (s *State) LastObservedSignerSet(chain string) *mhub2types.SignerSetTx {
	bz := s.m.Get(chainKey(mhub2types.LastObservedSignerSetKey, chain))
	if bz == nil {
		return nil
	}
	var ss mhub2types.SignerSetTx
	if err := ss.Unmarshal(bz); err != nil {
		return nil
	}
	return &ss
}

// VoteRec is one stored vote record with its key parts.
type VoteRec struct {
	Key   []byte
	Nonce uint64
	Hash  []byte
	Rec   *mhub2types.ExternalEventVoteRecord
}

func (s *State) VoteRecords(chain string) []VoteRec {
	var out []VoteRec
	p := chainKey(mhub2types.ExternalEventVoteRecordKey, chain)
	iterPrefix(s.m, p, func(k, v []byte) {
		var r mhub2types.ExternalEventVoteRecord
		if err := r.Unmarshal(v); err != nil {
			return
		}
		rest := k[len(p):]
		if len(rest) < 8 {
			return
		}
		out = append(out, VoteRec{Key: k, Nonce: binary.BigEndian.Uint64(rest[:8]), Hash: rest[8:], Rec: &r})
	})
	return out
}

// Signatures returns validator → signature for one outgoing tx store index.
func (s *State) Signatures(chain string, storeIndex []byte) map[string][]byte {
	out := map[string][]byte{}
	p := append(chainKey(mhub2types.ExternalSignatureKey, chain), storeIndex...)
	iterPrefix(s.m, p, func(k, v []byte) {
		out[sdk.ValAddress(k[len(p):]).String()] = v
	})
	return out
}

// AllSignatureKeys returns every signature key of a chain (raw).
func (s *State) AllSignatureKeys(chain string) [][]byte {
	var out [][]byte
	iterPrefix(s.m, chainKey(mhub2types.ExternalSignatureKey, chain), func(k, v []byte) { out = append(out, k) })
	return out
}

func (s *State) ValExtAddr(chain string, val sdk.ValAddress) []byte {
	return s.m.Get(mhub2types.MakeValidatorExternalAddressKey(mhub2types.ChainID(chain), val))
}
func (s *State) OrchVal(chain string, orch sdk.AccAddress) []byte {
	return s.m.Get(mhub2types.MakeOrchestratorValidatorAddressKey(mhub2types.ChainID(chain), orch))
}

// DelegateIndexes dumps the three registry indexes of a chain.
func (s *State) DelegateIndexes(chain string) (valExt map[string]string, orchVal map[string]string, extOrch map[string]string) {
	valExt, orchVal, extOrch = map[string]string{}, map[string]string{}, map[string]string{}
	p1 := chainKey(mhub2types.ValidatorExternalAddressKey, chain)
	iterPrefix(s.m, p1, func(k, v []byte) { valExt[string(k[len(p1):])] = string(v) })
	p2 := chainKey(mhub2types.OrchestratorValidatorAddressKey, chain)
	iterPrefix(s.m, p2, func(k, v []byte) { orchVal[string(k[len(p2):])] = string(v) })
	p3 := chainKey(mhub2types.ExternalOrchestratorAddressKey, chain)
	iterPrefix(s.m, p3, func(k, v []byte) { extOrch[string(k[len(p3):])] = string(v) })
	return
}

func (s *State) TokenInfos() []*mhub2types.TokenInfo {
	var t mhub2types.TokenInfos
	if err := t.Unmarshal(s.m.Get([]byte{mhub2types.TokenInfosKey})); err != nil {
		return nil
	}
	return t.TokenInfos
}

func (s *State) TxStatus(hash string) *mhub2types.TxStatus {
	bz := s.m.Get(mhub2types.GetTxStatusKey(hash))
	if len(bz) == 0 {
		return nil
	}
	var t mhub2types.TxStatus
	if err := t.Unmarshal(bz); err != nil {
		return nil
	}
	return &t
}

// AllTxStatuses returns every stored transfer status, keyed by the inbound transaction hash.
func (s *State) AllTxStatuses() map[string]mhub2types.TxStatusType {
	out := map[string]mhub2types.TxStatusType{}
	iterPrefix(s.m, []byte{mhub2types.TxStatusKey}, func(k, v []byte) {
		var t mhub2types.TxStatus
		if err := t.Unmarshal(v); err == nil {
			out[string(k[1:])] = t.Status
		}
	})
	return out
}

func (s *State) FeeRecord(hash string) *mhub2types.TxFeeRecord {
	bz := s.m.Get(mhub2types.GetTxFeeRecordKey(hash))
	if len(bz) == 0 {
		return nil
	}
	var t mhub2types.TxFeeRecord
	if err := t.Unmarshal(bz); err != nil {
		return nil
	}
	return &t
}

// ---- bank

func (s *State) bank() sdk.KVStore { return s.ctx.KVStore(s.n.App.GetKey("bank")) }

func (s *State) Supply(denom string) sdk.Int {
	bz := s.bank().Get(append(append([]byte(nil), banktypes.SupplyKey...), []byte(denom)...))
	if bz == nil {
		return sdk.ZeroInt()
	}
	var amt sdk.Int
	if err := amt.Unmarshal(bz); err != nil {
		return sdk.ZeroInt()
	}
	return amt
}

func (s *State) Balance(addr sdk.AccAddress, denom string) sdk.Int {
	key := append(banktypes.CreateAccountBalancesPrefix(addr), []byte(denom)...)
	bz := s.bank().Get(key)
	if bz == nil {
		return sdk.ZeroInt()
	}
	var c sdk.Coin
	if err := c.Unmarshal(bz); err != nil {
		return sdk.ZeroInt()
	}
	return c.Amount
}

// AllBalances returns every (address,denom) balance, sorted by key.
func (s *State) AllBalances() map[string]sdk.Int {
	out := map[string]sdk.Int{}
	iterPrefix(s.bank(), banktypes.BalancesPrefix, func(k, v []byte) {
		var c sdk.Coin
		if err := c.Unmarshal(v); err == nil {
			out[string(k)] = c.Amount
		}
	})
	return out
}

// ---- staking

func (s *State) staking() sdk.KVStore { return s.ctx.KVStore(s.n.App.GetKey("staking")) }

func (s *State) Validator(val sdk.ValAddress) *stakingtypes.Validator {
	bz := s.staking().Get(stakingtypes.GetValidatorKey(val))
	if bz == nil {
		return nil
	}
	var v stakingtypes.Validator
	if err := v.Unmarshal(bz); err != nil {
		return nil
	}
	return &v
}

func (s *State) LastValidatorPower(val sdk.ValAddress) int64 {
	bz := s.staking().Get(stakingtypes.GetLastValidatorPowerKey(val))
	if bz == nil {
		return 0
	}
	var i gogotypes.Int64Value
	if err := i.Unmarshal(bz); err != nil {
		return 0
	}
	return i.Value
}

func (s *State) LastTotalPower() sdk.Int {
	bz := s.staking().Get(stakingtypes.LastTotalPowerKey)
	if bz == nil {
		return sdk.ZeroInt()
	}
	var ip sdk.IntProto
	if err := ip.Unmarshal(bz); err != nil {
		return sdk.ZeroInt()
	}
	return ip.Int
}

// AllValidators lists every validator record.
func (s *State) AllValidators() []*stakingtypes.Validator {
	var out []*stakingtypes.Validator
	iterPrefix(s.staking(), stakingtypes.ValidatorsKey, func(k, v []byte) {
		var val stakingtypes.Validator
		if err := val.Unmarshal(v); err == nil {
			out = append(out, &val)
		}
	})
	return out
}

// ---- oracle

func (s *State) oracle() sdk.KVStore { return s.ctx.KVStore(s.n.App.GetKey("oracle")) }

func (s *State) OraclePrices() *oracletypes.Prices {
	bz := s.oracle().Get(oracletypes.CurrentPricesKey)
	if len(bz) == 0 {
		return nil
	}
	var p oracletypes.Prices
	if err := p.Unmarshal(bz); err != nil {
		return nil
	}
	return &p
}

func (s *State) OracleHolders() *oracletypes.Holders {
	bz := s.oracle().Get(oracletypes.CurrentHoldersKey)
	if len(bz) == 0 {
		return nil
	}
	var p oracletypes.Holders
	if err := p.Unmarshal(bz); err != nil {
		return nil
	}
	return &p
}

func (s *State) OracleEpoch() uint64 {
	bz := s.oracle().Get(oracletypes.CurrentEpochKey)
	if len(bz) == 0 {
		return 0
	}
	return oracletypes.UInt64FromBytes(bz)
}

// StoreDigest hashes every KV pair of a module store.
func (s *State) StoreDigest(name string) [32]byte {
	h := sha256.New()
	st := s.ctx.KVStore(s.n.App.GetKey(name))
	it := st.Iterator(nil, nil)
	var l [4]byte
	for ; it.Valid(); it.Next() {
		binary.BigEndian.PutUint32(l[:], uint32(len(it.Key())))
		h.Write(l[:])
		h.Write(it.Key())
		binary.BigEndian.PutUint32(l[:], uint32(len(it.Value())))
		h.Write(l[:])
		h.Write(it.Value())
	}
	it.Close()
	var out [32]byte
	copy(out[:], h.Sum(nil))
	return out
}

// StoreDump returns all KV pairs of a module store (sorted by key).
func (s *State) StoreDump(name string) (keys, vals [][]byte) {
	st := s.ctx.KVStore(s.n.App.GetKey(name))
	iterPrefix(st, nil, func(k, v []byte) { keys = append(keys, k); vals = append(vals, v) })
	return
}

func hasPrefix(b, p []byte) bool { return bytes.HasPrefix(b, p) }

func firstDiff(k0, v0, k1, v1 [][]byte) string {
	n := len(k0)
	if len(k1) < n {
		n = len(k1)
	}
	for i := 0; i < n; i++ {
		if !bytes.Equal(k0[i], k1[i]) {
			return "key " + hexs(k0[i]) + " vs " + hexs(k1[i])
		}
		if !bytes.Equal(v0[i], v1[i]) {
			return "value at key " + hexs(k0[i]) + " differs"
		}
	}
	if len(k0) != len(k1) {
		return "different number of keys"
	}
	return ""
}

func hexs(b []byte) string {
	const hexd = "0123456789abcdef"
	o := make([]byte, 0, len(b)*2)
	for _, c := range b {
		o = append(o, hexd[c>>4], hexd[c&15])
	}
	return string(o)
}

// DecodeEvent decodes a stored Any into the event struct by its type URL (the harness' own decoding;
// UnpackEvent only works on Anys whose cached value was filled by the interface registry).
func DecodeEvent(any *codectypes.Any) mhub2types.ExternalEvent {
	if any == nil {
		return nil
	}
	var ev interface {
		mhub2types.ExternalEvent
		Unmarshal([]byte) error
	}
	switch any.TypeUrl {
	case "/mhub2.v1.SendToHubEvent":
		ev = &mhub2types.SendToHubEvent{}
	case "/mhub2.v1.TransferToChainEvent":
		ev = &mhub2types.TransferToChainEvent{}
	case "/mhub2.v1.BatchExecutedEvent":
		ev = &mhub2types.BatchExecutedEvent{}
	case "/mhub2.v1.ContractCallExecutedEvent":
		ev = &mhub2types.ContractCallExecutedEvent{}
	case "/mhub2.v1.SignerSetTxExecutedEvent":
		ev = &mhub2types.SignerSetTxExecutedEvent{}
	default:
		return nil
	}
	if err := ev.Unmarshal(any.Value); err != nil {
		return nil
	}
	return ev
}
