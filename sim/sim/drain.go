package sim

import "math/rand"

// tuneConfig applies per-property configuration needs on top of the swarm draw.
func tuneConfig(c *Config, prop string, r *rand.Rand) {
	switch prop {
	case "C06":
		c.Replicas = 3
		c.GenesisOutgoing = r.Intn(4) == 0
	case "C10":
		if r.Intn(3) == 0 {
			c.UserFunds = "1393796574908163946345982392040522594123776" // 2^140
		}
	}
}

// Drain lets the honest machinery settle what is in flight. It is ONE intent ("settle"), so that
// minimisation cannot cut the honest work out from under the bounded-liveness oracle.
func (g *Gen) Drain() {
	g.emit(Intent{T: "settle", N: 8})
}

// settle: faults stop, stalled chains resume, every validator polls and signs, relayers submit, blocks are
// produced, for n rounds. It is also the window in which bounded liveness is judged.
func (w *World) settle(rounds int) {
	for _, ch := range Chains {
		w.Stalled[ch] = false
	}
	w.FaultsStoppedAt = w.N().Height
	for k := 0; k < rounds && !w.Stopped(); k++ {
		for _, ch := range Chains {
			for v := range w.Vals {
				w.doOrchPoll(Intent{T: "orch_poll", V: v, Chain: ch, N: 10})
			}
			// validators created during the run vote with their own account
			w.doOrchPoll(Intent{T: "orch_poll", Chain: ch, N: 10, As: "newval0"})
			w.doOrchPoll(Intent{T: "orch_poll", Chain: ch, N: 10, As: "newval1"})
		}
		w.ProduceBlock(5, nil)
		for _, ch := range Chains {
			for v := range w.Vals {
				w.doOrchSign(Intent{T: "orch_sign", V: v, Chain: ch})
			}
		}
		w.ProduceBlock(5, nil)
		for _, ch := range Chains {
			w.doRelay(Intent{T: "relay", Chain: ch, Op: "valset", Pick: 0})
			w.doRelay(Intent{T: "relay", Chain: ch, Op: "batch", Pick: 0, Gas: "1000"})
			w.doRelay(Intent{T: "relay", Chain: ch, Op: "batch", Pick: 1, Gas: "1000"})
		}
		w.ProduceBlock(5, nil)
	}
	// what the last relays produced must still be observed: three more poll-only rounds
	for k := 0; k < 3 && !w.Stopped(); k++ {
		for _, ch := range Chains {
			for v := range w.Vals {
				w.doOrchPoll(Intent{T: "orch_poll", V: v, Chain: ch, N: 10})
			}
			w.doOrchPoll(Intent{T: "orch_poll", Chain: ch, N: 10, As: "newval0"})
			w.doOrchPoll(Intent{T: "orch_poll", Chain: ch, N: 10, As: "newval1"})
		}
		w.ProduceBlock(5, nil)
	}
	w.Settled = !w.Stopped()
}
