#!/bin/bash
# The repository's own test suite exactly as the baseline runs it; there is no verification tag to switch off
# (the harness needs no source hooks), so this is the plain suite.
export GOPROXY=off GOSUMDB=off
rc=0
for m in . ./auto-tests ./keys-generator ./minter-connector ./module ./oracle ./testnet; do
  (cd /repo/$m && go test -mod=mod -vet=off -count=1 -timeout 25m ./... ) || rc=1
done
exit $rc
