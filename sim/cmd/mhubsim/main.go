// mhubsim: deterministic simulation with fault injection for MinterTeam/mhub2.
//
//	mhubsim check  <Cnn> [--tier quick|thorough] [--seed N] [--workers N] [--budget SECONDS]
//	mhubsim worker <Cnn> ...            (internal: one OS process per worker)
//	mhubsim run    <Cnn> --seed N [--log]
//	mhubsim replay <file>
//	mhubsim selftest determinism [--seeds N]
package main

import (
	"encoding/json"
	"flag"
	"fmt"
	"os"
	"os/exec"
	"path/filepath"
	"runtime"
	"sort"
	"strconv"
	"strings"
	"time"

	"mhubsim/sim"
)

// verifDir is where evidence, replays, work files and known_findings.json live (MHUBSIM_ROOT overrides it for
// background exploration runs from a snapshot; registered checks always use /verif).
var verifDir = func() string {
	if d := os.Getenv("MHUBSIM_ROOT"); d != "" {
		return d
	}
	return "/verif"
}()

func main() {
	if len(os.Args) < 2 {
		fmt.Fprintln(os.Stderr, "usage: mhubsim check|worker|run|replay|selftest ...")
		os.Exit(2)
	}
	switch os.Args[1] {
	case "check":
		os.Exit(cmdCheck(os.Args[2:]))
	case "worker":
		os.Exit(cmdWorker(os.Args[2:]))
	case "run":
		os.Exit(cmdRun(os.Args[2:]))
	case "replay":
		os.Exit(cmdReplay(os.Args[2:]))
	case "minimise":
		os.Exit(cmdMinimise(os.Args[2:]))
	case "trail":
		if len(os.Args) < 3 {
			os.Exit(2)
		}
		tr, err := sim.ChildTrail(os.Args[2])
		if err != nil {
			fmt.Fprintln(os.Stderr, err)
			os.Exit(2)
		}
		for _, l := range tr {
			fmt.Println(l)
		}
		os.Exit(0)
	case "selftest":
		os.Exit(cmdSelftest(os.Args[2:]))
	default:
		fmt.Fprintln(os.Stderr, "unknown command", os.Args[1])
		os.Exit(2)
	}
}

func envInt(name string, def int64) int64 {
	if v := os.Getenv(name); v != "" {
		if n, err := strconv.ParseInt(v, 10, 64); err == nil {
			return n
		}
	}
	return def
}

type workerOut struct {
	Runs       int             `json:"runs"`
	Seeds      []int64         `json:"seeds"`
	Stats      *sim.Stats      `json:"stats"`
	Shapes     map[string]bool `json:"shapes"`
	NonTrivial int             `json:"nontrivial"`
	Aborted    int             `json:"aborted"`
	AbortNotes map[string]int  `json:"abort_notes"`
	Violations []violationOut  `json:"violations"`
	Regressed  []violationOut  `json:"regressed"`
	Corpus     int             `json:"corpus"`
	Samples    []sampleOut     `json:"samples"`
	WallS      float64         `json:"wall_s"`
}

type violationOut struct {
	Signature string `json:"signature"`
	Message   string `json:"message"`
	Replay    string `json:"replay"`
	Seed      int64  `json:"seed"`
}

type sampleOut struct {
	Seed         int64        `json:"seed"`
	Config       sim.Config   `json:"config"`
	Intents      []sim.Intent `json:"intents_first_40"`
	TotalIntents int          `json:"total_intents"`
	Blocks       int64        `json:"blocks"`
}

func cmdRun(args []string) int {
	fs := flag.NewFlagSet("run", flag.ExitOnError)
	seed := fs.Int64("seed", 1, "run seed")
	tier := fs.String("tier", "quick", "tier")
	logOn := fs.Bool("log", false, "print event log")
	quiet := fs.Bool("quiet", false, "no timing line (for log comparison)")
	if len(args) < 1 {
		return 2
	}
	prop := args[0]
	fs.Parse(args[1:])
	t0 := time.Now()
	res := sim.RunSeed(prop, *seed, *tier, *logOn)
	if *logOn {
		for _, l := range res.Log {
			fmt.Println(l)
		}
	}
	if !*quiet {
		fmt.Printf("seed=%d intents=%d blocks=%d txs=%d failed=%d wall=%v nontrivial=%v\n", *seed, len(res.Intents), res.Stats.Blocks, res.Stats.Txs, res.Stats.TxsFailed, time.Since(t0), res.NonTriv)
	}
	if res.CrashStr != "" {
		fmt.Println("CRASH:", res.CrashStr)
	}
	if res.Viol != nil {
		fmt.Printf("VIOLATION %s: %s\n", res.Viol.Signature(), res.Viol.Message)
		return 1
	}
	b, _ := json.Marshal(res.Stats)
	fmt.Println(string(b))
	return 0
}

func cmdWorker(args []string) int {
	fs := flag.NewFlagSet("worker", flag.ExitOnError)
	seed := fs.Int64("seed", 1, "base seed")
	idx := fs.Int("idx", 0, "worker index")
	tier := fs.String("tier", "quick", "tier")
	budget := fs.Float64("budget", 40, "seconds")
	maxRuns := fs.Int("max-runs", 1000000, "max runs")
	out := fs.String("out", "", "output file")
	if len(args) < 1 {
		return 2
	}
	prop := args[0]
	fs.Parse(args[1:])
	t0 := time.Now()
	wo := workerOut{Stats: sim.NewStats(), Shapes: map[string]bool{}, AbortNotes: map[string]int{}}
	sim.MinimiseDeadline = t0.Add(time.Duration(*budget*3+120-50) * time.Second) // the check kills workers at budget*3+120 s
	// independent streams per worker: the start state mixes seed and worker index through SplitMix64 itself
	// (an offset by a multiple of the SplitMix increment would make the workers replay each other's seeds)
	s0 := uint64(*seed)
	s1 := (uint64(*idx) + 1) * 0xD6E8FEB86659FD93
	x := sim.SplitMix64(&s0) ^ sim.SplitMix64(&s1)
	replayDir := filepath.Join(verifDir, "replays")
	seenSig := map[string]bool{}
	kfw := loadKnown()
	if *idx == 0 {
		// regression corpus: the minimised traces of every defect repaired so far (replays/fixed) are executed first;
		// one that fails again with its recorded signature is a violation whose replay is the corpus file itself
		files, _ := filepath.Glob(filepath.Join(verifDir, "replays", "fixed", prop+"-*.json"))
		sort.Strings(files)
		for _, f := range files {
			rf, err := sim.ReadReplay(f)
			if err != nil || rf.Property != prop {
				continue
			}
			res := sim.Replay(rf.Property, rf.Config, rf.Intents, false)
			wo.Corpus++
			for _, v := range res.Viols {
				if v.Signature() == rf.Signature {
					wo.Regressed = append(wo.Regressed, violationOut{Signature: v.Signature(), Message: v.Message, Replay: f, Seed: rf.Seed})
					break
				}
			}
		}
	}
	for wo.Runs < *maxRuns && time.Since(t0).Seconds() < *budget {
		rs := int64(sim.SplitMix64(&x) >> 1)
		res := sim.RunSeed(prop, rs, *tier, false)
		wo.Runs++
		if len(wo.Seeds) < 50 {
			wo.Seeds = append(wo.Seeds, rs)
		}
		wo.Stats.Merge(res.Stats)
		if res.NonTriv {
			if !wo.Shapes[res.Shape] {
				wo.Shapes[res.Shape] = true
			}
			wo.NonTrivial++
		}
		if res.CrashStr != "" && res.Viol == nil {
			wo.Aborted++
			k := res.CrashStr
			if len(k) > 160 {
				k = k[:160]
			}
			wo.AbortNotes[k]++
		}
		if len(wo.Samples) < 1 && res.NonTriv {
			ins := res.Intents
			if len(ins) > 40 {
				ins = ins[:40] // the sample shows the generated part; the settle phase that follows is uniform
			}
			wo.Samples = append(wo.Samples, sampleOut{Seed: rs, Config: res.Cfg, Intents: ins, TotalIntents: len(res.Intents), Blocks: res.Blocks})
		}
		if prop == "C06" && len(res.Viols) == 0 && rs%2 == 0 {
			// cross-process leg: the same trace in a fresh OS process with another environment
			wo.Stats.Check("C06:process-compared")
			v, err := sim.CrossProcess(sim.XprocWorkDir(verifDir), prop, res.Cfg, res.Intents, res.Trail, sim.CrashTag(res), int(rs/2))
			if err != nil {
				fmt.Fprintln(os.Stderr, "cross-process leg:", err)
				return 2
			}
			wo.Stats.Fault("fresh_process_other_env")
			if v != nil {
				res.Viols = append(res.Viols, v)
			}
		}
		for _, viol := range res.Viols {
			sig := viol.Signature()
			if seenSig[sig] {
				continue
			}
			seenSig[sig] = true
			if isKnown(kfw, prop, sig) {
				// a recorded finding: its replay is committed under replays/known; no need to minimise it again
				wo.Violations = append(wo.Violations, violationOut{Signature: sig, Message: viol.Message, Replay: "", Seed: rs})
				continue
			}
			min := res.Intents
			if viol.Oracle != "deadlock" && viol.Oracle != "process" { // each deadlock replay leaks a hung app and costs the watchdog; a process divergence is judged against a second process
				min = sim.Minimise(prop, res.Cfg, res.Intents, sig, 500)
			}
			path, err := sim.WriteReplay(replayDir, res, viol, min)
			if err != nil {
				fmt.Fprintln(os.Stderr, "cannot write replay:", err)
				return 2
			}
			wo.Violations = append(wo.Violations, violationOut{Signature: sig, Message: viol.Message, Replay: path, Seed: rs})
		}
	}
	wo.WallS = time.Since(t0).Seconds()
	b, _ := json.Marshal(wo)
	if *out == "" {
		fmt.Println(string(b))
		return 0
	}
	if err := os.WriteFile(*out, b, 0o644); err != nil {
		return 2
	}
	return 0
}

// cmdMinimise: delta-debug a replay file again with a larger budget (mhubsim minimise <file> [tries]) and rewrite it.
func cmdMinimise(args []string) int {
	if len(args) < 1 {
		return 2
	}
	rf, err := sim.ReadReplay(args[0])
	if err != nil || rf.Property == "C20" {
		fmt.Fprintln(os.Stderr, "cannot minimise", args[0], err)
		return 2
	}
	budget := 600
	if len(args) > 1 {
		if n, err := strconv.Atoi(args[1]); err == nil {
			budget = n
		}
	}
	before := len(rf.Intents)
	rf.Intents = sim.Minimise(rf.Property, rf.Config, rf.Intents, rf.Signature, budget)
	b, _ := json.MarshalIndent(rf, "", " ")
	if err := os.WriteFile(args[0], b, 0o644); err != nil {
		return 2
	}
	fmt.Printf("minimised %s: %d -> %d intents\n", args[0], before, len(rf.Intents))
	return 0
}

func cmdReplay(args []string) int {
	if len(args) < 1 {
		return 2
	}
	rf, err := sim.ReadReplay(args[0])
	if err != nil {
		fmt.Fprintln(os.Stderr, err)
		return 2
	}
	if rf.Property == "C20" {
		abs, _ := filepath.Abs(args[0])
		c := exec.Command(filepath.Join(verifDir, "bin", "c20.test"))
		c.Dir = c20WorkDir("replay")
		c.Env = append(os.Environ(), "C20_REPLAY="+abs)
		out, _ := c.CombinedOutput()
		fmt.Print(string(out))
		if strings.Contains(string(out), "VIOLATION property=C20") {
			return 1
		}
		return 0
	}
	logOn := len(args) > 1 && args[1] == "--log"
	res := sim.Replay(rf.Property, rf.Config, rf.Intents, logOn)
	if rf.Violation != nil && rf.Violation.Oracle == "process" {
		for variant := 0; variant < 3; variant++ {
			v, err := sim.CrossProcess(sim.XprocWorkDir(verifDir), rf.Property, rf.Config, rf.Intents, res.Trail, sim.CrashTag(res), variant)
			if err != nil {
				fmt.Fprintln(os.Stderr, "cross-process leg:", err)
				return 2
			}
			if v != nil {
				res.Viols = append(res.Viols, v)
			}
		}
	}
	if logOn {
		for _, l := range res.Log {
			fmt.Println(l)
		}
	}
	for _, v := range res.Viols {
		if v.Signature() == rf.Signature {
			res.Viol = v
		}
	}
	if res.Viol == nil {
		fmt.Printf("replay of %s: no violation (recorded %s)\n", args[0], rf.Signature)
		if res.CrashStr != "" {
			fmt.Println("crash:", res.CrashStr)
		}
		return 0
	}
	fmt.Printf("replay of %s: %s: %s\n", args[0], res.Viol.Signature(), res.Viol.Message)
	if res.Viol.Signature() == rf.Signature {
		fmt.Printf("VIOLATION property=%s replay=%s\n", rf.Property, args[0])
		return 1
	}
	fmt.Println("different signature than recorded:", rf.Signature)
	return 1
}

// ---------------------------------------------------------------- check: fan out workers, merge, evidence

type knownFinding struct {
	ID          string `json:"id"`
	Property    string `json:"property"`
	Match       string `json:"match"` // prefix of the violation signature
	Description string `json:"description"`
	Replay      string `json:"first_replay,omitempty"`
}

type knownFile struct {
	Findings []knownFinding `json:"findings"`
	Fixed    []string       `json:"fixed"`
}

func isKnown(kf knownFile, prop, sig string) bool {
	for _, k := range kf.Findings {
		if k.Property == prop && strings.HasPrefix(sig, k.Match) {
			return true
		}
	}
	return false
}

func loadKnown() knownFile {
	var kf knownFile
	b, err := os.ReadFile(filepath.Join(verifDir, "known_findings.json"))
	if err == nil {
		_ = json.Unmarshal(b, &kf)
	}
	return kf
}

func cmdCheck(args []string) int {
	fs := flag.NewFlagSet("check", flag.ExitOnError)
	tier := fs.String("tier", os.Getenv("VERIF_TIER"), "quick|thorough")
	seed := fs.Int64("seed", envInt("VERIF_SEED", 20261004), "seed")
	workers := fs.Int("workers", runtime.NumCPU(), "worker processes")
	budget := fs.Float64("budget", 0, "seconds per worker (0 = tier default)")
	if len(args) < 1 {
		return 2
	}
	prop := args[0]
	fs.Parse(args[1:])
	if *tier == "" {
		*tier = "quick"
	}
	if *budget == 0 {
		*budget = 40
		if *tier == "thorough" {
			*budget = 600
		}
	}
	if prop == "C20" {
		return checkC20(*tier, *seed, *workers, *budget)
	}
	t0 := time.Now()
	self, _ := os.Executable()
	work := filepath.Join(verifDir, "work", prop+"-"+*tier)
	os.RemoveAll(work)
	os.MkdirAll(work, 0o755)
	type proc struct {
		cmd *exec.Cmd
		out string
	}
	var procs []proc
	for i := 0; i < *workers; i++ {
		out := filepath.Join(work, fmt.Sprintf("w%d.json", i))
		c := exec.Command(self, "worker", prop, "--seed", strconv.FormatInt(*seed, 10), "--idx", strconv.Itoa(i), "--tier", *tier,
			"--budget", fmt.Sprintf("%f", *budget), "--out", out)
		c.Stderr = os.Stderr
		c.Env = append(os.Environ(), "GOMAXPROCS=2")
		if err := c.Start(); err != nil {
			fmt.Fprintln(os.Stderr, "cannot start worker:", err)
			return 2
		}
		procs = append(procs, proc{c, out})
	}
	deadline := time.Duration(*budget*3+120) * time.Second
	infra := false
	for _, p := range procs {
		done := make(chan error, 1)
		go func() { done <- p.cmd.Wait() }()
		select {
		case err := <-done:
			if err != nil {
				fmt.Fprintln(os.Stderr, "worker failed:", err)
				infra = true
			}
		case <-time.After(deadline - time.Since(t0)):
			p.cmd.Process.Kill()
			fmt.Fprintln(os.Stderr, "worker overran its wall-clock budget")
			infra = true
		}
	}
	merged := workerOut{Stats: sim.NewStats(), Shapes: map[string]bool{}, AbortNotes: map[string]int{}}
	for _, p := range procs {
		b, err := os.ReadFile(p.out)
		if err != nil {
			infra = true
			continue
		}
		var wo workerOut
		if err := json.Unmarshal(b, &wo); err != nil {
			infra = true
			continue
		}
		merged.Runs += wo.Runs
		merged.Seeds = append(merged.Seeds, wo.Seeds...)
		merged.Stats.Merge(wo.Stats)
		for k := range wo.Shapes {
			merged.Shapes[k] = true
		}
		merged.NonTrivial += wo.NonTrivial
		merged.Aborted += wo.Aborted
		for k, v := range wo.AbortNotes {
			merged.AbortNotes[k] += v
		}
		merged.Violations = append(merged.Violations, wo.Violations...)
		merged.Regressed = append(merged.Regressed, wo.Regressed...)
		merged.Corpus += wo.Corpus
		if len(merged.Samples) < 2 {
			merged.Samples = append(merged.Samples, wo.Samples...)
		}
	}
	wall := time.Since(t0).Seconds()
	// classify violations against the committed known-findings file
	kf := loadKnown()
	var unknown []violationOut
	knownHit := map[string]violationOut{}
	sort.SliceStable(merged.Violations, func(i, j int) bool { return merged.Violations[i].Signature < merged.Violations[j].Signature })
	for _, v := range merged.Violations {
		matched := false
		for _, k := range kf.Findings {
			if k.Property == prop && strings.HasPrefix(v.Signature, k.Match) {
				if _, ok := knownHit[k.ID]; !ok {
					knownHit[k.ID] = v
				}
				matched = true
				break
			}
		}
		if !matched {
			unknown = append(unknown, v)
		}
	}
	for _, k := range kf.Findings {
		if k.Property != prop {
			continue
		}
		if v, ok := knownHit[k.ID]; ok {
			_ = v
			fmt.Printf("KNOWN-FINDING: property=%s %s [%s] (seen again in this run; replay=%s)\n", prop, k.Description, k.ID, k.Replay)
		} else {
			fmt.Printf("KNOWN-FINDING: property=%s %s [%s] (not re-encountered in this run)\n", prop, k.Description, k.ID)
		}
	}
	writeEvidence(prop, *tier, *seed, &merged, wall, len(unknown)+len(merged.Regressed), len(knownHit))
	os.RemoveAll(work)
	keptReplay := map[string]string{}
	for _, v := range merged.Regressed {
		if _, dup := keptReplay[v.Signature]; dup {
			continue
		}
		keptReplay[v.Signature] = v.Replay
		fmt.Printf("violation: %s: %s (a defect repaired earlier is back: its committed trace fails again)\n", v.Signature, v.Message)
		fmt.Printf("VIOLATION property=%s replay=%s\n", prop, v.Replay)
	}
	for _, v := range unknown {
		if first, dup := keptReplay[v.Signature]; dup {
			if v.Replay != first {
				os.Remove(v.Replay) // one replay file per signature is enough
			}
			continue
		}
		keptReplay[v.Signature] = v.Replay
		fmt.Printf("violation: %s: %s\n", v.Signature, v.Message)
		fmt.Printf("VIOLATION property=%s replay=%s\n", prop, v.Replay)
	}
	fmt.Printf("%s %s: runs=%d nontrivial=%d distinct=%d blocks=%d txs=%d aborted=%d wall=%.1fs\n", prop, *tier, merged.Runs, merged.NonTrivial, len(merged.Shapes), merged.Stats.Blocks, merged.Stats.Txs, merged.Aborted, wall)
	if len(unknown) > 0 || len(merged.Regressed) > 0 {
		return 1
	}
	if infra || merged.Runs == 0 {
		return 2
	}
	return 0
}

func writeEvidence(prop, tier string, seed int64, m *workerOut, wall float64, violations, known int) {
	level := "exploration"
	if prop == "C15" {
		level = "fault_enumeration"
	}
	ev := map[string]interface{}{
		"property_id": prop, "tier": tier, "seed": seed, "level": level, "wall_s": wall, "violations": violations,
		"coverage": map[string]interface{}{
			"evaluations":         m.Runs,
			"distinct_nontrivial": len(m.Shapes),
			"rule": "one evaluation = one simulated run (seeded swarm configuration + adaptively generated intent trace executed against the real hub app and the external-chain models); " +
				"a run is non-trivial when the property's oracle judged at least one positive case in it (probe 'nontrivial'); distinct = distinct hashes of (set of intent-kind trigrams, log2-bucketed event counters)",
			"samples":             samplesOrEmpty(m.Samples),
			"runs_per_hour":       float64(m.Runs) / wall * 3600,
			"seeds_per_hour":      float64(m.Runs) / wall * 3600,
			"simulated_seconds":   m.Stats.SimSeconds,
			"hub_blocks":          m.Stats.Blocks,
			"txs_delivered":       m.Stats.Txs,
			"txs_failed":          m.Stats.TxsFailed,
			"faults_fired":        m.Stats.Faults,
			"oracle_evaluations":  m.Stats.Checks,
			"probes":              m.Stats.Probes,
			"counters":            m.Stats.Counters,
			"nontrivial_runs":     m.NonTrivial,
			"runs_aborted":        m.Aborted,
			"abort_notes":         m.AbortNotes,
			"known_findings_seen": known,
			"regression_corpus":   fmt.Sprintf("%d committed traces of repaired defects (replays/fixed) re-executed first; %d failed again", m.Corpus, len(m.Regressed)),
			"first_seeds":         firstSeeds(m.Seeds, 20),
			"real_components":     []string{"app.NewMhub2App (baseapp, ante, auth, bank, staking, slashing, distribution, mint, gov, params, x/mhub2, x/oracle) on rootmulti/IAVL/cachekv over MemDB"},
			"stub_components":     []string{"Tendermint (single ordered block stream)", "Hub2.sol (Go model transcribed from solidity, own ABI encoder)", "Minter chain + multisig (Go model)", "Rust orchestrator/relayer (simulated actors)", "minter-connector main loop (simulated actor)", "price oracle daemon (simulated actor)"},
		},
		"assumptions": []string{"external custodians are executable models, not the deployed contracts", "consensus is a totally ordered block stream", "a clean batch is evidence, not proof"},
	}
	os.MkdirAll(filepath.Join(verifDir, "evidence"), 0o755)
	b, _ := json.MarshalIndent(ev, "", " ")
	os.WriteFile(filepath.Join(verifDir, "evidence", prop+".json"), b, 0o644)
}

func samplesOrEmpty(s []sampleOut) []sampleOut {
	if s == nil {
		return []sampleOut{}
	}
	return s
}

func firstSeeds(s []int64, n int) []int64 {
	if len(s) > n {
		return s[:n]
	}
	return s
}

// checkC20 fans out the connector harness (a Go test binary, because testing/synctest needs a *testing.T).
func checkC20(tier string, seed int64, workers int, budget float64) int {
	t0 := time.Now()
	bin := filepath.Join(verifDir, "bin", "c20.test")
	if _, err := os.Stat(bin); err != nil {
		fmt.Fprintln(os.Stderr, "c20.test is not built (run_check.sh builds it)")
		return 2
	}
	work := c20WorkDir(tier)
	type proc struct {
		cmd *exec.Cmd
		out string
	}
	var procs []proc
	for i := 0; i < workers; i++ {
		out := filepath.Join(work, fmt.Sprintf("w%d.json", i))
		// no command-line arguments: the connector's packages parse the process flags at init time
		c := exec.Command(bin)
		c.Dir = work
		c.Stderr = os.Stderr
		c.Env = append(os.Environ(), "GOMAXPROCS=2", "C20_SEED="+strconv.FormatInt(seed, 10), "C20_IDX="+strconv.Itoa(i),
			"C20_BUDGET="+fmt.Sprintf("%f", budget), "C20_TIER="+tier, "C20_OUT="+out, "C20_REPLAYDIR="+filepath.Join(verifDir, "replays"))
		if err := c.Start(); err != nil {
			return 2
		}
		procs = append(procs, proc{c, out})
	}
	infra := false
	for _, p := range procs {
		if err := p.cmd.Wait(); err != nil {
			fmt.Fprintln(os.Stderr, "C20 worker failed:", err)
			infra = true
		}
	}
	type c20res struct {
		Histories  int            `json:"histories"`
		Restarts   int            `json:"restarts"`
		Commands   int            `json:"commands"`
		Polls      int            `json:"polls"`
		Distinct   map[string]int `json:"distinct"`
		Faults     map[string]int `json:"faults"`
		Probes     map[string]int `json:"probes"`
		Violations []violationOut `json:"violations"`
		Samples    []interface{}  `json:"samples"`
	}
	tot := c20res{Distinct: map[string]int{}, Faults: map[string]int{}, Probes: map[string]int{}}
	for _, p := range procs {
		b, err := os.ReadFile(p.out)
		if err != nil {
			infra = true
			continue
		}
		var r c20res
		if json.Unmarshal(b, &r) != nil {
			infra = true
			continue
		}
		tot.Histories += r.Histories
		tot.Restarts += r.Restarts
		tot.Commands += r.Commands
		tot.Polls += r.Polls
		for k, v := range r.Distinct {
			tot.Distinct[k] += v
		}
		for k, v := range r.Faults {
			tot.Faults[k] += v
		}
		for k, v := range r.Probes {
			tot.Probes[k] += v
		}
		tot.Violations = append(tot.Violations, r.Violations...)
		if len(tot.Samples) < 1 {
			tot.Samples = append(tot.Samples, r.Samples...)
		}
	}
	wall := time.Since(t0).Seconds()
	kf := loadKnown()
	var unknown []violationOut
	seenKnown := map[string]bool{}
	for _, v := range tot.Violations {
		if isKnown(kf, "C20", v.Signature) {
			seenKnown[v.Signature] = true
			os.Remove(v.Replay)
			continue
		}
		unknown = append(unknown, v)
	}
	for _, k := range kf.Findings {
		if k.Property == "C20" {
			fmt.Printf("KNOWN-FINDING: property=C20 %s [%s]\n", k.Description, k.ID)
		}
	}
	if tot.Samples == nil {
		tot.Samples = []interface{}{}
	}
	ev := map[string]interface{}{
		"property_id": "C20", "tier": tier, "seed": seed, "level": "fault_enumeration", "wall_s": wall, "violations": len(unknown),
		"coverage": map[string]interface{}{
			"evaluations":         tot.Restarts + tot.Commands + tot.Polls,
			"distinct_nontrivial": len(tot.Distinct),
			"rule":                "per seeded Minter block history, EVERY cursor the connector can persist (block boundaries) x EVERY nonce the hub could have acknowledged (none, each event nonce incl. mid-block because of 10-message chunking, one beyond the chain) is one restart of the real resync code; plus lost/empty/torn/garbage status files and Minter API errors; histories above 4000 pairs are strided. distinct = distinct (cursor position, acknowledged-nonce position / file fault) classes; every restart is non-trivial (it runs the real scan). Polls: from (up to 60 per history) persisted cursors ONE step of the real polling loop (relayMinterEvents, generated copy of main.go); a step that finds bridge events is killed while handing the claims over (CommitTx), the status file on disk must be a consistent cursor and a real restart from it must number canonically; a quiet step must end at the end of its range. Command payloads: fuzzed against the statement's well-formedness rule.",
			"samples":             tot.Samples,
			"exhaustive":          false,
			"histories":           tot.Histories,
			"restarts":            tot.Restarts,
			"command_payloads":    tot.Commands,
			"polls":               tot.Polls,
			"restart_classes":     tot.Distinct,
			"faults_fired":        tot.Faults,
			"probes":              tot.Probes,
			"histories_per_hour":  float64(tot.Histories) / wall * 3600,
			"restarts_per_hour":   float64(tot.Restarts) / wall * 3600,
			"real_components":     []string{"minter-connector/minter.GetLatestMinterBlockAndNonce", "minter-connector/context (LoadStatus, Commit, status file on disk)", "minter-connector/command.ValidateAndComplete", "minter-go-sdk http_client.Client (above the ClientService seam)", "cmd/mhub-minter-connector relayMinterEvents (copy of main.go generated at build time) incl. cosmos.CreateClaims"},
			"stub_components":     []string{"Minter node HTTP API (api_service.ClientService stub serving the model's blocks)", "tx_committer (absent: handing claims over kills the process - the only hand-over available without a Cosmos RPC)", "hub acknowledgement (an integer)"},
			"clock":               "retry sleeps run inside testing/synctest bubbles (fake clock)",
		},
		"assumptions": []string{"the main loop persists cursors only at block boundaries (read from cmd/mhub-minter-connector/main.go relayMinterEvents)", "bridge-event classification of the model follows the statement; edit-multisig payloads are decimal integers as strconv.Atoi reads them"},
	}
	os.MkdirAll(filepath.Join(verifDir, "evidence"), 0o755)
	b, _ := json.MarshalIndent(ev, "", " ")
	os.WriteFile(filepath.Join(verifDir, "evidence", "C20.json"), b, 0o644)
	os.RemoveAll(work)
	seen := map[string]bool{}
	for _, v := range unknown {
		if seen[v.Signature] {
			os.Remove(v.Replay)
			continue
		}
		seen[v.Signature] = true
		fmt.Printf("violation: %s: %s\n", v.Signature, v.Message)
		fmt.Printf("VIOLATION property=C20 replay=%s\n", v.Replay)
	}
	fmt.Printf("C20 %s: histories=%d restarts=%d commands=%d classes=%d wall=%.1fs\n", tier, tot.Histories, tot.Restarts, tot.Commands, len(tot.Distinct), wall)
	if len(unknown) > 0 {
		return 1
	}
	if infra || tot.Restarts == 0 {
		return 2
	}
	return 0
}

// cmdSelftest: determinism self-test. Every seed is executed in several FRESH processes at different
// GOMAXPROCS; the complete event logs (intents, tx codes, per-block app hashes, oracle verdicts) must be
// byte-identical.
func cmdSelftest(args []string) int {
	fs := flag.NewFlagSet("selftest", flag.ExitOnError)
	seeds := fs.Int("seeds", 32, "seeds per property")
	props := fs.String("props", "C01,C05,C06,C08,C14,C15,C17,C18", "properties")
	reps := fs.Int("reps", 4, "fresh processes per seed")
	if len(args) < 1 || args[0] != "determinism" {
		fmt.Fprintln(os.Stderr, "usage: mhubsim selftest determinism [--seeds N] [--props C01,...]")
		return 2
	}
	fs.Parse(args[1:])
	self, _ := os.Executable()
	procs := []string{"1", "4", "16", "2", "8", "3"}
	type job struct {
		prop string
		seed int64
	}
	var jobs []job
	for _, p := range strings.Split(*props, ",") {
		x := uint64(len(p))*7919 + 99
		for i := 0; i < *seeds; i++ {
			jobs = append(jobs, job{p, int64(sim.SplitMix64(&x) >> 1)})
		}
	}
	bad := 0
	sem := make(chan struct{}, runtime.NumCPU())
	type res struct {
		j   job
		ok  bool
		msg string
	}
	out := make(chan res, len(jobs))
	for _, j := range jobs {
		j := j
		go func() {
			sem <- struct{}{}
			defer func() { <-sem }()
			var first []byte
			for r := 0; r < *reps; r++ {
				c := exec.Command(self, "run", j.prop, "--seed", strconv.FormatInt(j.seed, 10), "--log", "--quiet")
				c.Env = append(os.Environ(), "GOMAXPROCS="+procs[r%len(procs)])
				b, _ := c.Output()
				if r == 0 {
					first = b
				} else if string(b) != string(first) {
					out <- res{j, false, fmt.Sprintf("run %d (GOMAXPROCS=%s) differs from run 0: %d vs %d bytes", r, procs[r%len(procs)], len(b), len(first))}
					return
				}
			}
			out <- res{j, len(first) > 0, fmt.Sprintf("%d log bytes", len(first))}
		}()
	}
	for range jobs {
		r := <-out
		if !r.ok {
			bad++
			fmt.Printf("NONDETERMINISTIC %s seed=%d: %s\n", r.j.prop, r.j.seed, r.msg)
		}
	}
	fmt.Printf("determinism self-test: %d (property, seed) pairs x %d fresh processes at GOMAXPROCS %v: %d divergent\n", len(jobs), *reps, procs[:*reps], bad)
	if bad > 0 {
		return 1
	}
	return 0
}

// c20WorkDir prepares the directory the connector test binary runs in: the connector reads config.toml from
// its working directory while its packages initialise.
func c20WorkDir(name string) string {
	work := filepath.Join(verifDir, "work", "C20-"+name)
	os.RemoveAll(work)
	os.MkdirAll(work, 0o755)
	os.WriteFile(filepath.Join(work, "config.toml"), []byte("[minter]\nchain = \"mainnet\"\nmultisig_addr = \"Mxb1d9e1000000000000000000000000000000b1d9\"\nprivate_key = \"\"\napi_addr = \"http://sim.invalid/\"\nstart_block = 1\nstart_event_nonce = 1\nstart_batch_nonce = 1\nstart_valset_nonce = 1\n\n[cosmos]\nmnemonic = \"\"\ngrpc_addr = \"sim.invalid:9090\"\nrpc_addr = \"http://sim.invalid:26657\"\n"), 0o644)
	return work
}
